// Model of __corro_buffered_changes and __corro_seq_bookkeeping for ONE (actor, version).
// The DELETE's row-selection semantics ("overlapping or adjacent") is what E2 proves the SQL text
// equivalent to on every run; the two INSERTs are plain.
pub const DB_ROWS: usize = 4;

pub struct Db {
    pub actor: ActorId,
    pub version: u64,
    pub rows: [(u64, u64); DB_ROWS], // (start_seq, end_seq)
    pub rows_len: usize,
    pub last_seq_written: Option<u64>,
    pub buffered: u32, // bitmask of buffered seqs
}
static SQL: SqlTable<3> = SqlTable::new([SQL_BUFFER_INSERT, SQL_SEQ_MERGE_DELETE, SQL_SEQ_INSERT]);

impl Db {
    pub fn new(actor: ActorId, version: u64) -> Self {
        Db { actor, version, rows: [(0, 0); DB_ROWS], rows_len: 0, last_seq_written: None, buffered: 0 }
    }
    fn u(v: Val) -> u64 {
        match v {
            Val::U64(x) => x,
            Val::I64(x) if x >= 0 => x as u64,
            _ => panic!("VENV-SQL: integer parameter expected"),
        }
    }
}
impl Backend for Db {
    fn execute(&mut self, sql: &'static str, p: &ParamList) -> rusqlite::Result<usize> {
        match SQL.classify(sql) {
            0 => {
                // INSERT INTO __corro_buffered_changes ... ON CONFLICT (site_id, db_version, seq) DO NOTHING
                assert!(Self::u(p.named(pid!(":db_version"))) == self.version, "VENV-SQL: other version");
                let seq = Self::u(p.named(pid!(":seq")));
                assert!(seq < 32);
                if self.buffered & (1 << seq) != 0 {
                    Ok(0)
                } else {
                    self.buffered |= 1 << seq;
                    Ok(1)
                }
            }
            2 => {
                // INSERT INTO __corro_seq_bookkeeping VALUES (?, ?, ?, ?, ?, ?)
                assert!(Self::u(p.pos(0)) == self.actor.0 as u64 && Self::u(p.pos(1)) == self.version, "VENV-SQL: other actor/version");
                let (s, e) = (Self::u(p.pos(2)), Self::u(p.pos(3)));
                assert!(self.rows_len < DB_ROWS, "VENV-CAPACITY: seq bookkeeping rows");
                // PRIMARY KEY (site_id, db_version, start_seq)
                let mut i = 0;
                while i < DB_ROWS {
                    if i < self.rows_len && self.rows[i].0 == s {
                        return Err(rusqlite::Error::Other(19));
                    }
                    i += 1;
                }
                self.rows[self.rows_len] = (s, e);
                self.rows_len += 1;
                self.last_seq_written = Some(Self::u(p.pos(4)));
                Ok(1)
            }
            _ => panic!("VENV-SQL: not a write statement"),
        }
    }
    fn query(&mut self, sql: &'static str, p: &ParamList) -> rusqlite::Result<RowSet> {
        match SQL.classify(sql) {
            1 => {
                // DELETE ... RETURNING start_seq, end_seq: rows overlapping or adjacent to [:start,:end]
                assert!(Self::u(p.named(pid!(":actor_id"))) == self.actor.0 as u64 && Self::u(p.named(pid!(":db_version"))) == self.version, "VENV-SQL: other actor/version");
                let (a, b) = (Self::u(p.named(pid!(":start"))), Self::u(p.named(pid!(":end"))));
                let mut out = RowSet::empty();
                let mut keep = [(0u64, 0u64); DB_ROWS];
                let mut n = 0;
                let mut i = 0;
                while i < DB_ROWS {
                    if i < self.rows_len {
                        let (s, e) = self.rows[i];
                        if s <= b + 1 && a <= e + 1 {
                            out.push(&[Val::U64(s), Val::U64(e)]);
                        } else {
                            keep[n] = (s, e);
                            n += 1;
                        }
                    }
                    i += 1;
                }
                self.rows = keep;
                self.rows_len = n;
                Ok(out)
            }
            _ => panic!("VENV-SQL: not a query"),
        }
    }
}
