//! C03 — a remote transaction becomes visible atomically, exactly when all chunks arrived
//! (decision kernels).  Sliced: Changeset::is_complete, process_incomplete_version (re-hosted on
//! a model of __corro_buffered_changes / __corro_seq_bookkeeping whose DELETE semantics is proved
//! equal to the SQL text by E2), the apply-trigger decision of process_multiple_changes, the gap
//! pre-check of process_fully_buffered_changes, BookedVersions::insert_partial.
#![allow(unused_imports, dead_code, unused_variables, unused_mut, clippy::all)]
#![feature(step_trait)]

pub mod host {
    use std::cell::Cell;
    use std::cmp;
    use std::iter::Step;
    use std::ops::{Add, Deref, RangeInclusive, Sub};
    use venv::avec as vec;
    use venv::collections::{btree_map, BTreeMap, HashMap, HashSet, Vec};
    use venv::rangemap::{RangeInclusiveSet, StepLite};
    use venv::sql::{Backend, OptionalExtension, ParamList, RowSet, SqlTable, Val};
    use venv::{assert_always, assert_sometimes, counter, debug, error, info, json, named_params, params, pid, trace, warn};

    pub mod rusqlite {
        pub use venv::sqlite::{Error, Result};
        pub type Connection = venv::sql::Conn<super::Db>;
    }
    /// `InterruptibleTransaction<T>`: derefs to the connection
    pub struct InterruptibleTransaction<T>(pub T);
    impl<T: Deref<Target = rusqlite::Connection>> Deref for InterruptibleTransaction<T> {
        type Target = rusqlite::Connection;
        fn deref(&self) -> &rusqlite::Connection {
            self.0.deref()
        }
    }
    pub trait Committable {}
    pub struct Tx<'a>(pub &'a rusqlite::Connection);
    impl<'a> Deref for Tx<'a> {
        type Target = rusqlite::Connection;
        fn deref(&self) -> &rusqlite::Connection {
            self.0
        }
    }
    impl<'a> Committable for Tx<'a> {}

    #[derive(Debug, Default, Clone, Copy, Eq, PartialEq, Ord, PartialOrd, Hash)]
    pub struct ActorId(pub u8);
    #[derive(Debug, Default, Clone, Copy, Eq, PartialEq, Ord, PartialOrd, Hash)]
    pub struct Timestamp(pub u64);
    #[derive(Debug, Default, Clone, Copy, Eq, PartialEq, Ord, PartialOrd, Hash)]
    pub struct TableName(pub u8);
    impl TableName {
        pub fn as_str(&self) -> &str {
            ""
        }
    }
    #[derive(Debug, Default, Clone, Copy, Eq, PartialEq)]
    pub struct Opaque;
    impl venv::sql::ToVal for Opaque {
        fn to_val(&self) -> Val {
            Val::Null
        }
    }
    /// a change row: only `seq` (and the identifying columns) matter to the buffering logic
    #[derive(Debug, Default, Clone, Copy, PartialEq)]
    pub struct Change {
        pub table: TableName,
        pub pk: Opaque,
        pub cid: TableName,
        pub val: Opaque,
        pub col_version: i64,
        pub db_version: CrsqlDbVersion,
        pub seq: CrsqlSeq,
        pub site_id: [u8; 16],
        pub cl: i64,
    }
    #[derive(Debug)]
    pub enum ChangeError {
        Rusqlite,
    }
    macro_rules! to_val_u64 {
        ($($t:ident),*) => {$(
            impl venv::sql::ToVal for $t {
                fn to_val(&self) -> Val { Val::U64(self.0 as u64) }
            }
        )*};
    }
    to_val_u64!(ActorId, Timestamp, CrsqlDbVersion, CrsqlSeq);
    impl venv::sql::FromVal for CrsqlSeq {
        fn from_val(v: Val) -> rusqlite::Result<Self> {
            u64::from_val(v).map(CrsqlSeq)
        }
    }

    // ---- apply-trigger environment -----------------------------------------------------------
    pub struct ApplyTx {
        pub sent: Cell<usize>,
        pub last: Cell<(u8, u64)>,
    }
    #[derive(Clone, Copy)]
    pub struct ApplyTxHandle<'a>(&'a ApplyTx);
    impl<'a> ApplyTxHandle<'a> {
        pub async fn send(&self, v: (ActorId, CrsqlDbVersion)) -> Result<(), ()> {
            self.0.sent.set(self.0.sent.get() + 1);
            self.0.last.set((v.0 .0, v.1 .0));
            Ok(())
        }
    }
    pub struct TxApplyRef<'a>(&'a ApplyTx);
    impl<'a> TxApplyRef<'a> {
        pub fn clone(&self) -> ApplyTxHandle<'a> {
            ApplyTxHandle(self.0)
        }
    }
    pub struct Agent {
        pub tx_apply: ApplyTx,
    }
    impl Agent {
        pub fn tx_apply(&self) -> TxApplyRef<'_> {
            TxApplyRef(&self.tx_apply)
        }
    }
    /// `tokio::spawn`: the spawned future (always-ready environment) is run to completion at once
    pub mod tokio {
        pub fn spawn<F: core::future::Future>(f: F) {
            let _ = venv::task::block_on(f);
        }
    }

    include!("sliced/base.rs");
    include!("sliced/agent.rs");
    include!("sliced/broadcast.rs");
    include!("sliced/util.rs");

    macro_rules! step_like_repo {
        ($t:ident) => {
            impl Step for $t {
                fn steps_between(start: &Self, end: &Self) -> (usize, Option<usize>) {
                    u64::steps_between(&start.0, &end.0)
                }
                fn forward_checked(start: Self, count: usize) -> Option<Self> {
                    u64::forward_checked(start.0, count).map(Self)
                }
                fn backward_checked(start: Self, count: usize) -> Option<Self> {
                    u64::backward_checked(start.0, count).map(Self)
                }
                fn forward_overflowing(start: Self, count: usize) -> (Self, bool) {
                    let (v, o) = u64::forward_overflowing(start.0, count);
                    (Self(v), o)
                }
                fn backward_overflowing(start: Self, count: usize) -> (Self, bool) {
                    let (v, o) = u64::backward_overflowing(start.0, count);
                    (Self(v), o)
                }
            }
        };
    }
    step_like_repo!(CrsqlDbVersion);
    step_like_repo!(CrsqlSeq);

    include!("db.rs");

    #[cfg(kani)]
    mod proofs {
        use super::*;
        include!("proofs.rs");
    }
}
