// Bounds: one actor, one version, sequences 0..=M (last_seq <= M), <= 2 change rows per chunk.
const M: u64 = env_num(option_env!("VERIF_C03_M"), 3);
const fn env_num(s: Option<&str>, d: u64) -> u64 {
    match s {
        Some(s) => (s.as_bytes()[0] - b'0') as u64,
        None => d,
    }
}
const ACTOR: ActorId = ActorId(5);
const VERSION: u64 = 9;

fn bits(lo: u64, hi: u64) -> u32 {
    if lo > hi {
        0
    } else {
        (((1u64 << (hi + 1)) - 1) & !((1u64 << lo) - 1)) as u32
    }
}
fn set_of_mask(mask: u32) -> RangeInclusiveSet<CrsqlSeq> {
    let mut s = RangeInclusiveSet::new();
    let mut v = 0;
    let mut run: Option<u64> = None;
    while v <= M + 1 {
        let on = v <= M && mask & (1 << v) != 0;
        match (run, on) {
            (None, true) => run = Some(v),
            (Some(st), false) => {
                s.insert(CrsqlSeq(st)..=CrsqlSeq(v - 1));
                run = None;
            }
            _ => {}
        }
        v += 1;
    }
    s
}
fn mask_of(s: &RangeInclusiveSet<CrsqlSeq>) -> u32 {
    let mut m = 0;
    let mut prev: Option<u64> = None;
    for r in s.iter() {
        assert!(r.start() <= r.end());
        if let Some(p) = prev {
            assert!(r.start().0 > p + 1);
        }
        prev = Some(r.end().0);
        m |= bits(r.start().0, r.end().0);
    }
    m
}
/// the maximal run of `mask` that contains position `at`
fn run_containing(mask: u32, at: u64) -> (u64, u64) {
    let mut lo = at;
    while lo > 0 && mask & (1 << (lo - 1)) != 0 {
        lo -= 1;
    }
    let mut hi = at;
    while hi < M && mask & (1 << (hi + 1)) != 0 {
        hi += 1;
    }
    (lo, hi)
}

#[kani::proof]
fn c03_is_complete_iff_chunk_covers_whole_version() {
    let (s0, s1, last): (u64, u64, u64) = (kani::any(), kani::any(), kani::any());
    let cs = Changeset::Full { version: CrsqlDbVersion(VERSION), changes: Vec::new(), seqs: CrsqlSeq(s0)..=CrsqlSeq(s1), last_seq: CrsqlSeq(last), ts: Timestamp(0) };
    assert!(cs.is_complete() == (s0 == 0 && s1 == last), "C03: is_complete is not 'the chunk spans 0..=last_seq'");
    let empty = Changeset::Empty { versions: CrsqlDbVersion(1)..=CrsqlDbVersion(2), ts: None };
    assert!(empty.is_complete());
    core::mem::forget((cs, empty));
}

/// chunk arrival, one inductive step: from ANY stored state (rows = maximal runs of an arbitrary
/// set of received sequences) one chunk [a,b] is buffered and merged: the stored rows afterwards
/// are exactly the maximal runs of (received ∪ [a,b]), the returned partial is the run holding the
/// chunk, every change row is buffered (duplicates ignored) — whatever the order, overlap or
/// duplication of arrivals (the pre-state is arbitrary).
#[kani::proof]
fn c03_chunk_arrival_merges_ranges_exactly() {
    chunk_arrival(0, 1);
}
/// same step with two change rows in the chunk (case split on the row count: the two cases run
/// in parallel and each keeps the buffering loop's trip count concrete)
#[kani::proof]
fn c03_chunk_arrival_two_rows() {
    chunk_arrival(2, 2);
}
fn chunk_arrival(min_rows: usize, max_rows: usize) {
    let last_seq: u64 = kani::any();
    kani::assume(last_seq <= M);
    let have: u32 = kani::any();
    kani::assume(have & !bits(0, last_seq) == 0);
    let buffered: u32 = kani::any();
    kani::assume(buffered & !have == 0);
    let (a, b): (u64, u64) = (kani::any(), kani::any());
    kani::assume(a <= b && b <= last_seq);

    let mut db = Db::new(ACTOR, VERSION);
    db.buffered = buffered;
    for r in set_of_mask(have).iter() {
        db.rows[db.rows_len] = (r.start().0, r.end().0);
        db.rows_len += 1;
    }
    let conn = venv::sql::Conn::new(db);

    // up to two change rows inside the chunk
    let n: usize = kani::any();
    kani::assume(min_rows <= n && n <= max_rows);
    let (c0, c1): (u64, u64) = (kani::any(), kani::any());
    kani::assume(a <= c0 && c0 <= b && a <= c1 && c1 <= b && (n < 2 || c0 < c1));
    let mut changes = Vec::new();
    let mut chunk_rows = 0u32;
    if n >= 1 {
        changes.push(Change { seq: CrsqlSeq(c0), db_version: CrsqlDbVersion(VERSION), ..Default::default() });
        chunk_rows |= 1 << c0;
    }
    if n >= 2 {
        changes.push(Change { seq: CrsqlSeq(c1), db_version: CrsqlDbVersion(VERSION), ..Default::default() });
        chunk_rows |= 1 << c1;
    }
    let parts = ChangesetParts { version: CrsqlDbVersion(VERSION), changes, seqs: CrsqlSeq(a)..=CrsqlSeq(b), last_seq: CrsqlSeq(last_seq), ts: Timestamp(3) };
    let sp = InterruptibleTransaction(Tx(&conn));
    let res = process_incomplete_version(&sp, ACTOR, &parts);

    let union = have | bits(a, b);
    let (lo, hi) = run_containing(union, a);
    match res {
        Ok(KnownDbVersion::Partial(p)) => {
            assert!(p.last_seq.0 == last_seq);
            assert!(p.seqs.len() == 1, "C03: merged partial is not one contiguous range");
            let r = p.seqs.iter().next().unwrap();
            assert!(r.start().0 == lo && r.end().0 == hi, "C03: merged range is not the maximal run holding the chunk");
            core::mem::forget(p);
        }
        _ => {
            assert!(false, "C03: buffering a chunk failed");
        }
    }
    {
        let db = conn.db.borrow();
        // stored rows = maximal runs of the union, exactly
        let mut m = 0u32;
        let mut i = 0;
        while i < DB_ROWS {
            if i < db.rows_len {
                let (s, e) = db.rows[i];
                assert!(s <= e && e <= last_seq);
                assert!(m & bits(s, e) == 0, "C03: stored sequence ranges overlap");
                let (rl, rh) = run_containing(union, s);
                assert!(rl == s && rh == e, "C03: a stored sequence range is not a maximal run of what was received");
                m |= bits(s, e);
            }
            i += 1;
        }
        assert!(m == union, "C03: stored sequence ranges do not cover exactly what was received");
        assert!(db.buffered == buffered | chunk_rows, "C03: change rows were not buffered exactly once");
        assert!(db.last_seq_written == Some(last_seq));
    }
    kani::cover!(have != 0 && lo < a && hi > b, "chunk bridges two stored ranges");
    kani::cover!(have & bits(a, b) != 0, "overlapping / duplicate chunk");
    core::mem::forget(parts);
}

/// the apply trigger fires exactly when the union of received chunks covers 0..=last_seq
#[kani::proof]
fn c03_apply_triggered_iff_all_sequences_received() {
    let last_seq: u64 = kani::any();
    kani::assume(last_seq <= M);
    let have: u32 = kani::any();
    kani::assume(have & !bits(0, last_seq) == 0);
    let (a, b): (u64, u64) = (kani::any(), kani::any());
    kani::assume(a <= b && b <= last_seq);
    // in-memory record before the batch (None when this is the first chunk of the version)
    let mut bv = BookedVersions::new(ACTOR);
    if have != 0 {
        bv.partials.insert(CrsqlDbVersion(VERSION), PartialVersion { seqs: set_of_mask(have), last_seq: CrsqlSeq(last_seq), ts: Timestamp(1) });
    }
    // what process_incomplete_version hands over: the merged run holding the chunk
    let union = have | bits(a, b);
    let (lo, hi) = run_containing(union, a);
    let mut merged = RangeInclusiveSet::new();
    merged.insert(CrsqlSeq(lo)..=CrsqlSeq(hi));
    let partial = PartialVersion { seqs: merged, last_seq: CrsqlSeq(last_seq), ts: Timestamp(1) };
    let agent = Agent { tx_apply: ApplyTx { sent: Cell::new(0), last: Cell::new((0, 0)) } };
    apply_trigger_decision(&agent, &mut bv, ACTOR, CrsqlDbVersion(VERSION), partial);

    let complete = union == bits(0, last_seq);
    assert!((agent.tx_apply.sent.get() == 1) == complete, "C03: apply trigger does not fire exactly when every sequence of the version has arrived");
    assert!(agent.tx_apply.sent.get() <= 1);
    if complete {
        assert!(agent.tx_apply.last.get() == (ACTOR.0, VERSION), "C03: trigger for the wrong actor / version");
    }
    match bv.partials.get(&CrsqlDbVersion(VERSION)) {
        Some(p) => {
            assert!(mask_of(&p.seqs) == union, "C03: in-memory received sequences are not the union of the chunks")
        }
        None => {
            assert!(false)
        }
    }
    // and the applier's own guard agrees: it refuses exactly while a sequence is missing
    match buffered_apply_precheck(&bv, CrsqlDbVersion(VERSION), ACTOR) {
        Ok(go) => {
            assert!(go == complete, "C03: buffered-apply guard disagrees with the received sequences")
        }
        Err(_) => {
            assert!(false)
        }
    }
    kani::cover!(complete && have != 0, "last missing chunk arrives");
    kani::cover!(!complete && union & 1 == 0, "sequence 0 still missing");
    core::mem::forget(bv);
}

/// a version nobody buffered is never applied
#[kani::proof]
fn c03_apply_guard_refuses_unknown_version() {
    let bv = BookedVersions::new(ACTOR);
    assert!(matches!(buffered_apply_precheck(&bv, CrsqlDbVersion(VERSION), ACTOR), Ok(false)));
    core::mem::forget(bv);
}

/// a changeset is booked as "cleared" (known, nothing to apply) without going through the apply /
/// buffer path ONLY if it is complete: an empty chunk for a proper sub-range of a version (which a
/// relay really sends when later versions overwrote those sequences) must still be buffered as a
/// chunk, otherwise the version is marked known while other chunks are missing
#[kani::proof]
fn c03_only_complete_changesets_are_booked_without_applying() {
    let (s0, s1, last): (u64, u64, u64) = (kani::any(), kani::any(), kani::any());
    kani::assume(s0 <= s1 && s1 <= last);
    let with_rows: bool = kani::any();
    let mut changes = Vec::new();
    if with_rows {
        changes.push(Change { seq: CrsqlSeq(s0), ..Default::default() });
    }
    let change = ChangeV1 { actor_id: ACTOR, changeset: Changeset::Full { version: CrsqlDbVersion(VERSION), changes, seqs: CrsqlSeq(s0)..=CrsqlSeq(s1), last_seq: CrsqlSeq(last), ts: Timestamp(0) } };
    let cleared = booked_as_cleared_without_applying(&change);
    if cleared {
        assert!(s0 == 0 && s1 == last, "C03: a chunk covering only part of a version is booked as if the whole version were known");
        assert!(!with_rows, "C03: a changeset carrying changes is booked without applying them");
    }
    let empty = ChangeV1 { actor_id: ACTOR, changeset: Changeset::Empty { versions: CrsqlDbVersion(1)..=CrsqlDbVersion(3), ts: None } };
    assert!(booked_as_cleared_without_applying(&empty), "C03: an Empty changeset must be booked as cleared");
    kani::cover!(cleared, "complete empty changeset");
    core::mem::forget((change, empty));
}
