//! C09 — binary codecs round-trip every value and survive arbitrary peer bytes.
//! Real `speedy` (+derive), `bytes`, `uuid`, `smallvec`, `compact_str`, `uhlc`; the repository's
//! hand-written and derived codecs are sliced token-for-token.
#![feature(allocator_api)]
#![allow(unused_imports, dead_code, unused_variables, unused_mut, clippy::all)]

// the env stand-ins are compiled INTO this crate (not as a dependency) so that speedy's traits can
// be implemented for the array-backed HashMap
#[path = "../../../env/src/rangemap.rs"]
pub mod rangemap;
#[path = "../../../env/src/collections.rs"]
pub mod collections;

pub mod host {
    use bytes::{Buf, BufMut};
    use compact_str::CompactString;
    use smallvec::SmallVec;
    use speedy::{Context, Readable, Reader, Writable, Writer};
    use crate::collections::HashMap;
    use std::hash::Hash;
    use std::ops::{Deref, RangeInclusive};
    use uhlc::NTP64;
    use uuid::Uuid;

    /// stand-in for `rusqlite::types::ValueRef` (same shape, plain data)
    pub mod rusqlite {
        pub mod types {
            #[derive(Clone, Copy, Debug, PartialEq)]
            pub enum ValueRef<'a> {
                Null,
                Integer(i64),
                Real(f64),
                Text(&'a [u8]),
                Blob(&'a [u8]),
            }
        }
    }
    use rusqlite::types::ValueRef;

    /// length of the peer-supplied buffer of the running harness (set before decoding)
    pub static mut INPUT_LEN: usize = 0;
    /// slack allowed on top of the input length for a pre-allocation request (elements)
    pub const PREALLOC_SLACK: usize = 4096;

    // speedy wire format of HashMap<K,V> (u32 length, then key/value pairs) for the array-backed
    // stand-in; mirrors speedy 0.8.7 `impl Readable/Writable for HashMap` (library code, trusted)
    impl<'a, C: Context, K: Readable<'a, C> + Ord, V: Readable<'a, C>> Readable<'a, C> for HashMap<K, V> {
        fn read_from<R: Reader<'a, C>>(reader: &mut R) -> Result<Self, C::Error> {
            let length = reader.read_u32()? as usize;
            let mut m = HashMap::new();
            let mut i = 0;
            while i < length {
                let k = K::read_from(reader)?;
                let v = V::read_from(reader)?;
                m.insert(k, v);
                i += 1;
            }
            Ok(m)
        }
    }
    impl<C: Context, K: Writable<C> + Ord, V: Writable<C>> Writable<C> for HashMap<K, V> {
        fn write_to<T: ?Sized + Writer<C>>(&self, writer: &mut T) -> Result<(), C::Error> {
            (self.len() as u32).write_to(writer)?;
            for (k, v) in self.iter() {
                k.write_to(writer)?;
                v.write_to(writer)?;
            }
            Ok(())
        }
    }

    include!("sliced/base.rs");
    include!("sliced/actor.rs");
    include!("sliced/api.rs");
    include!("sliced/change.rs");
    include!("sliced/broadcast.rs");
    include!("sliced/sync.rs");
    include!("sliced/pubsub.rs");

    #[cfg(kani)]
    mod proofs {
        use super::*;
        include!("proofs.rs");
    }
    #[cfg(test)]
    mod native {
        use super::*;
        include!("native.rs");
    }
}
