//! C09 — binary codecs round-trip every value and survive arbitrary peer bytes.
//! Real `speedy` (+derive), `bytes`, `uuid`, `smallvec`, `compact_str`, `uhlc`; the repository's
//! hand-written and derived codecs are sliced token-for-token.
#![feature(allocator_api)]
#![allow(unused_imports, dead_code, unused_variables, unused_mut, clippy::all)]

pub mod host {
    use bytes::{Buf, BufMut};
    use compact_str::CompactString;
    use smallvec::SmallVec;
    use speedy::{Context, Readable, Reader, Writable, Writer};
    use std::collections::HashMap;
    use std::hash::Hash;
    use std::ops::{Deref, RangeInclusive};
    use uhlc::NTP64;
    use uuid::Uuid;

    /// stand-in for `rusqlite::types::ValueRef` (same shape, plain data)
    pub mod rusqlite {
        pub mod types {
            #[derive(Clone, Copy, Debug, PartialEq)]
            pub enum ValueRef<'a> {
                Null,
                Integer(i64),
                Real(f64),
                Text(&'a [u8]),
                Blob(&'a [u8]),
            }
        }
    }
    use rusqlite::types::ValueRef;

    include!("sliced/base.rs");
    include!("sliced/actor.rs");
    include!("sliced/api.rs");
    include!("sliced/change.rs");
    include!("sliced/broadcast.rs");
    include!("sliced/sync.rs");
    include!("sliced/pubsub.rs");

    #[cfg(kani)]
    mod proofs {
        use super::*;
        include!("proofs.rs");
    }
    #[cfg(test)]
    mod native {
        use super::*;
        include!("native.rs");
    }
}
