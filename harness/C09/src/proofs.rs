// ---------------------------------------------------------------------------------------------
// stubs: formatting is not the subject; allocation requests are checked against the input size
// ---------------------------------------------------------------------------------------------

fn stub_format(_args: core::fmt::Arguments<'_>) -> String {
    String::new()
}

/// `Vec::with_capacity(n)` reached from a decoder: the request must be related to the input size
/// ("never allocates memory unrelated to the input size"): n <= input length + PREALLOC_SLACK.
fn stub_vec_with_capacity<T>(n: usize) -> Vec<T> {
    let input = unsafe { INPUT_LEN };
    assert!(n <= input + PREALLOC_SLACK, "C09-ALLOC: Vec::with_capacity request unrelated to input size");
    kani::assume(n <= input + PREALLOC_SLACK);
    // the real allocation (callers such as speedy's read_vec rely on the capacity being there);
    // `with_capacity_in` does not go through `with_capacity`, so the stub does not recurse
    Vec::with_capacity_in(n, std::alloc::Global)
}

/// `core::str::from_utf8` replaced (Kani stubbing) by an exact DFA validator: std's validator
/// scans a machine word at a time with loops CBMC cannot digest on symbolic bytes.  The DFA
/// (`utf8_ok`) implements RFC 3629 / Unicode table 3-7; the error value is opaque to all callers
/// reached here (they only test `is_err` / map it away).
fn stub_from_utf8(v: &[u8]) -> Result<&str, core::str::Utf8Error> {
    if utf8_ok(v) {
        Ok(unsafe { core::str::from_utf8_unchecked(v) })
    } else {
        // Utf8Error { valid_up_to: usize, error_len: Option<u8> } has no public constructor
        Err(unsafe { core::mem::transmute::<(usize, Option<u8>), core::str::Utf8Error>((0usize, None)) })
    }
}

fn set_input_len(n: usize) {
    unsafe {
        INPUT_LEN = n;
        crate::collections::PREALLOC_LIMIT = n + PREALLOC_SLACK;
    }
}

type LE = speedy::LittleEndian;

/// decoding a fully symbolic buffer of fixed length must RETURN (Ok or Err): no panic, no
/// arithmetic overflow, no capacity overflow, no allocation request unrelated to the input
macro_rules! decode_total {
    ($name:ident, $ty:ty, $len:expr, $unwind:expr $(, prefix = [$($p:expr),*])? $(, not_first = $nf:expr)? $(, check = $chk:expr)?) => {
        #[kani::proof]
        #[kani::unwind($unwind)]
        #[kani::stub(alloc::fmt::format, stub_format)]
        #[kani::stub(std::vec::Vec::with_capacity, stub_vec_with_capacity)]
        #[kani::stub(core::str::from_utf8, stub_from_utf8)]
        fn $name() {
            let mut buf: [u8; $len] = kani::any();
            // straight-line prefix assignment (a copy loop would need an unwind bound of its own)
            $( let mut i = 0; $( buf[i] = $p; i += 1; )* let _ = i; )?
            $( kani::assume(buf[0] != $nf); )?
            set_input_len($len);
            let r = <$ty as Readable<LE>>::read_from_buffer(&buf);
            kani::cover!(true, "decoder returned");
            $( if let Ok(v) = &r { let f: fn(&$ty) = $chk; f(v); } )?
            core::mem::forget(r);
        }
    };
}

// ---- SyncNeedV1 (hand-written) -------------------------------------------------------------
decode_total!(c09_need_total_l01, SyncNeedV1, 1, 4);
decode_total!(c09_need_total_l09, SyncNeedV1, 9, 4);
decode_total!(c09_need_total_l17, SyncNeedV1, 17, 4);
decode_total!(c09_need_total_l33, SyncNeedV1, 33, 4);
decode_total!(c09_need_total_l49, SyncNeedV1, 49, 5);

// ---- Changeset (hand-written) --------------------------------------------------------------
// one harness per arm with the tag byte concrete (a symbolic tag makes CBMC's symbolic
// execution walk the derived Vec<Change> reader of the Full arm for every harness)
decode_total!(c09_changeset_badtag_l09, Changeset, 9, 4, prefix = [7]);
decode_total!(c09_changeset_badtag255_l09, Changeset, 9, 4, prefix = [255]);
decode_total!(c09_changeset_empty_total_l18, Changeset, 18, 4, prefix = [0]);
decode_total!(c09_changeset_empty_total_l26, Changeset, 26, 4, prefix = [0]);
decode_total!(c09_changeset_emptyset_total_l17, Changeset, 17, 4, prefix = [2]);
decode_total!(c09_changeset_emptyset_total_l33, Changeset, 33, 4, prefix = [2]);
// (the generic Changeset harnesses exclude tag 1: its arm only delegates to the derived
// Vec<Change> reader, which is covered here)
// Full variant: tag fixed to 1, everything else symbolic (lands in the derived Vec<Change> reader)
decode_total!(c09_changeset_full_total_l45, Changeset, 45, 4, prefix = [1]);

// ---- SqliteValue (hand-written; decoded text must be valid UTF-8) ---------------------------
/// exact UTF-8 validity (RFC 3629 / Unicode table 3-7) as a small DFA; std's validator uses
/// word-at-a-time loops that CBMC cannot digest on symbolic bytes
fn utf8_ok(b: &[u8]) -> bool {
    let mut i = 0;
    let n = b.len();
    while i < n {
        let c = b[i];
        let (need, lo, hi) = if c < 0x80 {
            (0usize, 0x80u8, 0xBFu8)
        } else if c >= 0xC2 && c <= 0xDF {
            (1, 0x80, 0xBF)
        } else if c == 0xE0 {
            (2, 0xA0, 0xBF)
        } else if (c >= 0xE1 && c <= 0xEC) || c == 0xEE || c == 0xEF {
            (2, 0x80, 0xBF)
        } else if c == 0xED {
            (2, 0x80, 0x9F)
        } else if c == 0xF0 {
            (3, 0x90, 0xBF)
        } else if c >= 0xF1 && c <= 0xF3 {
            (3, 0x80, 0xBF)
        } else if c == 0xF4 {
            (3, 0x80, 0x8F)
        } else {
            return false;
        };
        if i + need >= n + (need == 0) as usize {
            return false;
        }
        let mut k = 1;
        while k <= need {
            let d = b[i + k];
            let (l, h) = if k == 1 { (lo, hi) } else { (0x80, 0xBF) };
            if d < l || d > h {
                return false;
            }
            k += 1;
        }
        i += need + 1;
    }
    true
}
fn text_is_utf8(v: &SqliteValue) {
    if let SqliteValue::Text(s) = v {
        assert!(utf8_ok(s.as_bytes()), "C09-UTF8: decoded text is not valid UTF-8");
    }
}
decode_total!(c09_value_total_l01, SqliteValue, 1, 4, check = text_is_utf8);
decode_total!(c09_value_total_l09, SqliteValue, 9, 6);
decode_total!(c09_value_text_total_l07, SqliteValue, 7, 6, prefix = [3], check = text_is_utf8);
decode_total!(c09_value_blob_total_l08, SqliteValue, 8, 6, prefix = [4]);

// ---- names, ids, timestamps ----------------------------------------------------------------
// TableName / ColumnName read a `&str` through speedy, which validates UTF-8 itself (library code)
fn table_is_utf8(v: &TableName) {
    assert!(utf8_ok(v.0.as_bytes()), "C09-UTF8: decoded name is not valid UTF-8");
}
decode_total!(c09_tablename_total_l07, TableName, 7, 6, check = table_is_utf8);
decode_total!(c09_actor_total_l16, ActorId, 16, 18);
decode_total!(c09_actor_total_l15, ActorId, 15, 18);
decode_total!(c09_timestamp_total_l08, Timestamp, 8, 10);
decode_total!(c09_cluster_total_l02, ClusterId, 2, 4);

// ---- SyncStateV1 (hand-written; array-backed HashMap stand-in) -------------------------------
decode_total!(c09_state_total_l37, SyncStateV1, 37, 6);
// heads = {} (bytes 16..20 = 0): lands in the need / partial_need readers
decode_total!(c09_state_need_total_l61, SyncStateV1, 61, 6,
    prefix = [0,0,0,0,0,0,0,0,0,0,0,0,0,0,0,0, 0,0,0,0]);

// ---- whole wire messages: concrete variant-selecting prefix, symbolic remainder --------------
// UniPayload::V1 { data: Broadcast(Change(ChangeV1 { actor_id, changeset })), cluster_id }
decode_total!(c09_unipayload_total, UniPayload, 12 + 16 + 26 + 2, 6,
    prefix = [0,0,0,0, 0,0,0,0, 0,0,0,0]);
// SyncMessage::V1(Request([(actor, [need])]))
decode_total!(c09_syncmessage_request_total, SyncMessage, 8 + 4 + 16 + 4 + 17, 6,
    prefix = [0,0,0,0, 4,0,0,0, 1,0,0,0, 0,0,0,0,0,0,0,0,0,0,0,0,0,0,0,0, 1,0,0,0]);
// SyncMessage::V1(Changeset(ChangeV1 {..}))
decode_total!(c09_syncmessage_changeset_total, SyncMessage, 8 + 16 + 26, 6,
    prefix = [0,0,0,0, 1,0,0,0]);

// ---------------------------------------------------------------------------------------------
// round trips: decode(encode(v)) == v
// ---------------------------------------------------------------------------------------------

fn any_range_v() -> RangeInclusive<CrsqlDbVersion> {
    CrsqlDbVersion(kani::any())..=CrsqlDbVersion(kani::any())
}
fn any_range_s() -> RangeInclusive<CrsqlSeq> {
    CrsqlSeq(kani::any())..=CrsqlSeq(kani::any())
}
fn any_ts() -> Timestamp {
    Timestamp(NTP64(kani::any()))
}
fn any_opt_ts() -> Option<Timestamp> {
    if kani::any() {
        Some(any_ts())
    } else {
        None
    }
}
fn same_ts(a: &Timestamp, b: &Timestamp) -> bool {
    a.0 .0 == b.0 .0
}

#[kani::proof]
#[kani::unwind(6)]
#[kani::stub(alloc::fmt::format, stub_format)]
fn c09_need_roundtrip_full() {
    need_roundtrip(0);
}
#[kani::proof]
#[kani::unwind(6)]
#[kani::stub(alloc::fmt::format, stub_format)]
fn c09_need_roundtrip_partial() {
    need_roundtrip(1);
}
#[kani::proof]
#[kani::unwind(6)]
#[kani::stub(alloc::fmt::format, stub_format)]
fn c09_need_roundtrip_empty() {
    need_roundtrip(2);
}
fn need_roundtrip(which: u8) {
    let v = match which {
        0 => SyncNeedV1::Full { versions: any_range_v() },
        1 => {
            let n: usize = kani::any();
            kani::assume(n <= 2);
            let mut seqs = Vec::new();
            let mut i = 0;
            while i < n {
                seqs.push(any_range_s());
                i += 1;
            }
            SyncNeedV1::Partial { version: CrsqlDbVersion(kani::any()), seqs }
        }
        _ => SyncNeedV1::Empty { ts: any_opt_ts() },
    };
    let bytes = match <SyncNeedV1 as Writable<LE>>::write_to_vec(&v) {
        Ok(b) => b,
        Err(_) => {
            assert!(false, "encode failed");
            return;
        }
    };
    match <SyncNeedV1 as Readable<LE>>::read_from_buffer(&bytes) {
        Ok(d) => {
            let same = match (&v, &d) {
                (SyncNeedV1::Full { versions: a }, SyncNeedV1::Full { versions: b }) => a == b,
                (SyncNeedV1::Partial { version: a, seqs: x }, SyncNeedV1::Partial { version: b, seqs: y }) => {
                    a == b && x.len() == y.len() && (x.len() < 1 || x[0] == y[0]) && (x.len() < 2 || x[1] == y[1])
                }
                (SyncNeedV1::Empty { ts: a }, SyncNeedV1::Empty { ts: b }) => match (a, b) {
                    (None, None) => true,
                    (Some(a), Some(b)) => same_ts(a, b),
                    _ => false,
                },
                _ => false,
            };
            assert!(same, "C09-RT: SyncNeedV1 does not round-trip");
            core::mem::forget(d);
        }
        Err(_) => {
            assert!(false, "C09-RT: encoded SyncNeedV1 does not decode");
        }
    }
    kani::cover!(true, "round trip completed");
    core::mem::forget(v);
    core::mem::forget(bytes);
}

#[kani::proof]
#[kani::unwind(6)]
#[kani::stub(alloc::fmt::format, stub_format)]
fn c09_changeset_roundtrip_range() {
    changeset_roundtrip(0);
}
#[kani::proof]
#[kani::unwind(6)]
#[kani::stub(alloc::fmt::format, stub_format)]
fn c09_changeset_roundtrip_emptyset() {
    changeset_roundtrip(1);
}
fn changeset_roundtrip(which: u8) {
    let v = match which {
        0 => Changeset::Empty { versions: any_range_v(), ts: any_opt_ts() },
        _ => {
            let n: usize = kani::any();
            kani::assume(n <= 2);
            let mut versions = Vec::new();
            let mut i = 0;
            while i < n {
                versions.push(any_range_v());
                i += 1;
            }
            Changeset::EmptySet { versions, ts: any_ts() }
        }
    };
    let bytes = match <Changeset as Writable<LE>>::write_to_vec(&v) {
        Ok(b) => b,
        Err(_) => {
            assert!(false, "encode failed");
            return;
        }
    };
    match <Changeset as Readable<LE>>::read_from_buffer(&bytes) {
        Ok(d) => {
            let same = match (&v, &d) {
                (Changeset::Empty { versions: a, ts: t }, Changeset::Empty { versions: b, ts: u }) => {
                    a == b
                        && match (t, u) {
                            (None, None) => true,
                            (Some(a), Some(b)) => same_ts(a, b),
                            _ => false,
                        }
                }
                (Changeset::EmptySet { versions: x, ts: t }, Changeset::EmptySet { versions: y, ts: u }) => {
                    same_ts(t, u) && x.len() == y.len() && (x.len() < 1 || x[0] == y[0]) && (x.len() < 2 || x[1] == y[1])
                }
                _ => false,
            };
            assert!(same, "C09-RT: Changeset does not round-trip");
            core::mem::forget(d);
        }
        Err(_) => {
            assert!(false, "C09-RT: encoded Changeset does not decode");
        }
    }
    core::mem::forget(v);
    core::mem::forget(bytes);
}

/// SyncStateV1 (hand-written encoder + decoder): heads, need and partial_need with up to 2 actors
/// and up to 2 partial versions per actor; every length prefix must describe what follows
fn state_roundtrip(actors_with_partials: usize, versions_per_actor: usize) {
    let a1 = ActorId(Uuid::from_bytes([1; 16]));
    let a2 = ActorId(Uuid::from_bytes([2; 16]));
    let mut st = SyncStateV1 { actor_id: ActorId(Uuid::from_bytes(kani::any())), ..Default::default() };
    st.heads.insert(a1, CrsqlDbVersion(kani::any()));
    let mut need = Vec::new();
    need.push(any_range_v());
    st.need.insert(a2, need);
    let mut i = 0;
    while i < actors_with_partials {
        let mut m = HashMap::new();
        let mut j = 0;
        while j < versions_per_actor {
            let mut seqs = Vec::new();
            seqs.push(any_range_s());
            m.insert(CrsqlDbVersion(10 + j as u64), seqs);
            j += 1;
        }
        st.partial_need.insert(if i == 0 { a1 } else { a2 }, m);
        i += 1;
    }
    st.last_cleared_ts = any_opt_ts();
    let bytes = match <SyncStateV1 as Writable<LE>>::write_to_vec(&st) {
        Ok(b) => b,
        Err(_) => {
            assert!(false, "encode failed");
            return;
        }
    };
    set_input_len(bytes.len());
    match <SyncStateV1 as Readable<LE>>::read_from_buffer(&bytes) {
        Ok(d) => {
            assert!(d.actor_id == st.actor_id && d.heads == st.heads && d.need == st.need, "C09-RT: SyncStateV1 heads/need do not round-trip");
            assert!(d.partial_need == st.partial_need, "C09-RT: SyncStateV1 partial_need does not round-trip");
            let same_ts_opt = match (&d.last_cleared_ts, &st.last_cleared_ts) {
                (None, None) => true,
                (Some(a), Some(b)) => same_ts(a, b),
                _ => false,
            };
            assert!(same_ts_opt, "C09-RT: SyncStateV1 last_cleared_ts does not round-trip");
            core::mem::forget(d);
        }
        Err(_) => {
            assert!(false, "C09-RT: encoded SyncStateV1 does not decode");
        }
    }
    kani::cover!(true, "round trip completed");
    core::mem::forget(st);
    core::mem::forget(bytes);
}
#[kani::proof]
#[kani::unwind(8)]
#[kani::stub(alloc::fmt::format, stub_format)]
fn c09_state_roundtrip_1actor_2versions() {
    state_roundtrip(1, 2);
}
#[kani::proof]
#[kani::unwind(8)]
#[kani::stub(alloc::fmt::format, stub_format)]
fn c09_state_roundtrip_2actors_1version() {
    state_roundtrip(2, 1);
}

/// SyncStateV1 encoder against the wire layout the decoder reads (encode side only; composing
/// encode and decode in one harness exhausts the solver): every length prefix describes what follows
///   actor[16] | heads: u32 n, n x (actor[16], u64) | need: u64 n, n x (actor[16], u64 k, k x (u64,u64))
///   | partial_need: u64 n, n x (actor[16], u64 m, m x (u64 version, u64 k, k x (u64,u64))) | Option<ts>
fn state_encode_layout(actors_with_partials: usize, versions_per_actor: usize, symbolic_ranges: bool) {
    let a1 = ActorId(Uuid::from_bytes([1; 16]));
    let a2 = ActorId(Uuid::from_bytes([2; 16]));
    let mut st = SyncStateV1 { actor_id: ActorId(Uuid::from_bytes([9; 16])), ..Default::default() };
    let mut i = 0;
    while i < actors_with_partials {
        let mut m = HashMap::new();
        let mut j = 0;
        while j < versions_per_actor {
            let mut seqs = Vec::new();
            seqs.push(if symbolic_ranges { any_range_s() } else { CrsqlSeq(j as u64)..=CrsqlSeq(7) });
            m.insert(CrsqlDbVersion(10 + j as u64), seqs);
            j += 1;
        }
        st.partial_need.insert(if i == 0 { a1 } else { a2 }, m);
        i += 1;
    }
    st.last_cleared_ts = None;
    let bytes = match <SyncStateV1 as Writable<LE>>::write_to_vec(&st) {
        Ok(b) => b,
        Err(_) => {
            assert!(false, "encode failed");
            return;
        }
    };
    let u64_at = |o: usize| -> u64 {
        let mut v = 0u64;
        let mut k = 0;
        while k < 8 {
            v |= (bytes[o + k] as u64) << (8 * k);
            k += 1;
        }
        v
    };
    // actor 16, heads len u32 (= 0), need len u64 (= 0), partial_need len u64
    assert!(bytes[16] == 0 && bytes[17] == 0 && bytes[18] == 0 && bytes[19] == 0, "C09-RT: heads length prefix");
    assert!(u64_at(20) == 0, "C09-RT: need length prefix");
    assert!(u64_at(28) == actors_with_partials as u64, "C09-RT: partial_need length prefix is not the number of actors");
    // each actor block: actor[16], versions_len u64, then per version: version u64, ranges_len u64 (= 1), range 16
    let per_actor = 16 + 8 + versions_per_actor * (8 + 8 + 16);
    let mut o = 36;
    let mut a = 0;
    while a < actors_with_partials {
        assert!(u64_at(o + 16) == versions_per_actor as u64, "C09-RT: an actor's partial-version count prefix does not describe what follows");
        let mut j = 0;
        while j < versions_per_actor {
            assert!(u64_at(o + 24 + j * 32 + 8) == 1, "C09-RT: sequence-range count prefix");
            j += 1;
        }
        o += per_actor;
        a += 1;
    }
    assert!(bytes.len() == o + 1 && bytes[o] == 0, "C09-RT: encoded length / last_cleared_ts marker");
    core::mem::forget(st);
    core::mem::forget(bytes);
}
#[kani::proof]
#[kani::unwind(10)]
#[kani::stub(alloc::fmt::format, stub_format)]
fn c09_state_encode_layout_1actor_2versions() {
    state_encode_layout(1, 2, true);
}
#[kani::proof]
#[kani::unwind(10)]
#[kani::stub(alloc::fmt::format, stub_format)]
fn c09_state_encode_layout_2actors_1version() {
    state_encode_layout(2, 1, true);
}

/// the same layout check on concrete sequence ranges (only the COUNTS the prefixes must describe
/// vary): cheap enough for the per-change tier
#[kani::proof]
#[kani::unwind(10)]
#[kani::stub(alloc::fmt::format, stub_format)]
fn c09_state_encode_prefixes_1actor_2versions() {
    state_encode_layout(1, 2, false);
}
#[kani::proof]
#[kani::unwind(10)]
#[kani::stub(alloc::fmt::format, stub_format)]
fn c09_state_encode_prefixes_2actors_1version() {
    state_encode_layout(2, 1, false);
}

/// SqliteValue: every integer, every f64 bit pattern (NaN compared by bits), text / blob <= 2 bytes
#[kani::proof]
#[kani::unwind(8)]
#[kani::stub(alloc::fmt::format, stub_format)]
fn c09_value_roundtrip_scalar() {
    let which: u8 = kani::any();
    kani::assume(which < 3);
    value_roundtrip(which);
}
#[kani::proof]
#[kani::unwind(8)]
#[kani::stub(alloc::fmt::format, stub_format)]
fn c09_value_roundtrip_text() {
    value_roundtrip(3);
}
#[kani::proof]
#[kani::unwind(8)]
#[kani::stub(alloc::fmt::format, stub_format)]
fn c09_value_roundtrip_blob() {
    value_roundtrip(4);
}
fn value_roundtrip(which: u8) {
    let v = match which {
        0 => SqliteValue::Null,
        1 => SqliteValue::Integer(kani::any()),
        2 => SqliteValue::Real(Real(f64::from_bits(kani::any()))),
        3 => {
            // ASCII text of 0..=2 bytes (valid UTF-8 by construction)
            let n: usize = kani::any();
            kani::assume(n <= 2);
            let a: u8 = kani::any();
            let b: u8 = kani::any();
            kani::assume(a < 0x80 && b < 0x80);
            let bytes = [a, b];
            let s = match core::str::from_utf8(&bytes[..n]) {
                Ok(s) => s,
                Err(_) => return,
            };
            SqliteValue::Text(CompactString::new(s))
        }
        _ => {
            let n: usize = kani::any();
            kani::assume(n <= 2);
            let bytes: [u8; 2] = kani::any();
            SqliteValue::Blob(SmallVec::from_slice(&bytes[..n]))
        }
    };
    let enc = match <SqliteValue as Writable<LE>>::write_to_vec(&v) {
        Ok(b) => b,
        Err(_) => {
            assert!(false, "encode failed");
            return;
        }
    };
    match <SqliteValue as Readable<LE>>::read_from_buffer(&enc) {
        Ok(d) => {
            let same = match (&v, &d) {
                (SqliteValue::Null, SqliteValue::Null) => true,
                (SqliteValue::Integer(a), SqliteValue::Integer(b)) => a == b,
                (SqliteValue::Real(a), SqliteValue::Real(b)) => a.0.to_bits() == b.0.to_bits(),
                (SqliteValue::Text(a), SqliteValue::Text(b)) => {
                    let (x, y) = (a.as_bytes(), b.as_bytes());
                    x.len() == y.len() && (x.len() < 1 || x[0] == y[0]) && (x.len() < 2 || x[1] == y[1])
                }
                (SqliteValue::Blob(a), SqliteValue::Blob(b)) => {
                    a.len() == b.len() && (a.len() < 1 || a[0] == b[0]) && (a.len() < 2 || a[1] == b[1])
                }
                _ => false,
            };
            assert!(same, "C09-RT: SqliteValue does not round-trip");
            core::mem::forget(d);
        }
        Err(_) => {
            assert!(false, "C09-RT: encoded SqliteValue does not decode");
        }
    }
    core::mem::forget(v);
    core::mem::forget(enc);
}

#[kani::proof]
#[kani::unwind(18)]
#[kani::stub(alloc::fmt::format, stub_format)]
fn c09_ids_roundtrip() {
    let a = ActorId(Uuid::from_bytes(kani::any()));
    let enc = <ActorId as Writable<LE>>::write_to_vec(&a).unwrap();
    assert!(enc.len() == 16);
    let d = <ActorId as Readable<LE>>::read_from_buffer(&enc).unwrap();
    assert!(d.to_bytes() == a.to_bytes());
    let c = ClusterId(kani::any());
    let enc2 = <ClusterId as Writable<LE>>::write_to_vec(&c).unwrap();
    let d2 = <ClusterId as Readable<LE>>::read_from_buffer(&enc2).unwrap();
    assert!(d2.0 == c.0);
    let t = any_ts();
    let enc3 = <Timestamp as Writable<LE>>::write_to_vec(&t).unwrap();
    let d3 = <Timestamp as Readable<LE>>::read_from_buffer(&enc3).unwrap();
    assert!(same_ts(&t, &d3));
    let v = CrsqlDbVersion(kani::any());
    let enc4 = <CrsqlDbVersion as Writable<LE>>::write_to_vec(&v).unwrap();
    assert!(<CrsqlDbVersion as Readable<LE>>::read_from_buffer(&enc4).unwrap() == v);
    let s = CrsqlSeq(kani::any());
    let enc5 = <CrsqlSeq as Writable<LE>>::write_to_vec(&s).unwrap();
    assert!(<CrsqlSeq as Readable<LE>>::read_from_buffer(&enc5).unwrap() == s);
    core::mem::forget((enc, enc2, enc3, enc4, enc5));
}

// ---------------------------------------------------------------------------------------------
// packed primary keys
// ---------------------------------------------------------------------------------------------

/// reference: minimal number of bytes whose big-endian unsigned value equals `v as u64`
fn ref_int_bytes(v: i64) -> u8 {
    let u = v as u64;
    let mut n = 8u8;
    while n > 0 && (u >> ((n as u32 - 1) * 8)) & 0xff == 0 {
        n -= 1;
    }
    n
}

#[kani::proof]
fn c09_num_bytes_needed_minimal() {
    let v: i64 = kani::any();
    let n = num_bytes_needed_i64(v);
    assert!(n == ref_int_bytes(v), "C09-PACK: integer byte count is not the extension's minimal count");
    let w: i32 = kani::any();
    let m = num_bytes_needed_i32(w);
    assert!(m <= 4);
    assert!(m == ref_int_bytes((w as u32) as i64));
}

/// unpack side alone: a key laid out as the extension writes it ([1][1 | n<<3][n big-endian bytes],
/// n = minimal width of v) unpacks to v — for every i64 (catches sign extension of widths < 8)
#[kani::proof]
#[kani::unwind(10)]
#[kani::stub(alloc::fmt::format, stub_format)]
fn c09_unpack_integer_layout_all_i64() {
    let v: i64 = kani::any();
    let n = ref_int_bytes(v) as usize;
    let mut buf = [0u8; 10];
    buf[0] = 1;
    buf[1] = ((n as u8) << 3) | 1;
    let mut i = 0;
    while i < 8 {
        if i < n {
            buf[2 + i] = ((v as u64) >> (8 * (n - 1 - i))) as u8;
        }
        i += 1;
    }
    match unpack_columns(&buf[..2 + n]) {
        Ok(cols) => {
            assert!(cols.len() == 1);
            match cols[0].0 {
                ValueRef::Integer(d) => {
                    assert!(d == v, "C09-PACK: a key in the extension's layout does not unpack to the same integer")
                }
                _ => {
                    assert!(false, "C09-PACK: wrong column type")
                }
            }
            core::mem::forget(cols);
        }
        Err(_) => {
            assert!(false, "C09-PACK: a well-formed key does not unpack");
        }
    }
    kani::cover!(n == 1 && v >= 128, "one byte with the top bit set");
    kani::cover!(v < 0, "negative key");
    kani::cover!(v == 0, "zero key");
}

/// pack side alone: every i64 is packed in the extension's layout
#[kani::proof]
#[kani::unwind(10)]
#[kani::stub(alloc::fmt::format, stub_format)]
fn c09_pack_integer_layout_all_i64() {
    let v: i64 = kani::any();
    let cols = [SqliteValue::Integer(v)];
    let packed = match pack_columns(&cols) {
        Ok(p) => p,
        Err(_) => {
            assert!(false, "pack failed");
            return;
        }
    };
    let n = ref_int_bytes(v) as usize;
    assert!(packed.len() == 2 + n, "C09-PACK: layout length");
    assert!(packed[0] == 1 && packed[1] == ((n as u8) << 3 | 1), "C09-PACK: header bytes");
    let mut i = 0;
    while i < 8 {
        if i < n {
            assert!(packed[2 + i] == ((v as u64) >> (8 * (n - 1 - i))) as u8, "C09-PACK: big-endian payload");
        }
        i += 1;
    }
    kani::cover!(n == 4 && v >= (1 << 31), "u32-range key with the top bit set");
    core::mem::forget(packed);
    core::mem::forget(cols);
}

/// pack side, other kinds: real (every bit pattern), null, text and blob of 2 bytes follow the
/// layout [ncols] [2][8 bytes BE] [5] [3|1<<3][len][bytes] / [4|1<<3][len][bytes]
#[kani::proof]
#[kani::unwind(10)]
#[kani::stub(alloc::fmt::format, stub_format)]
fn c09_pack_mixed_layout() {
    let bits: u64 = kani::any();
    let raw: [u8; 2] = kani::any();
    // (a Text column cannot be packed under Kani: compact_str's length read goes through an
    // inline-asm optimisation barrier, which Kani does not support; text keys are covered on the
    // unpack side and share this code path with blobs except for the type nibble)
    let as_text = false;
    let third = SqliteValue::Blob(SmallVec::from_slice(&raw));
    let cols = [SqliteValue::Real(Real(f64::from_bits(bits))), SqliteValue::Null, third];
    let packed = match pack_columns(&cols) {
        Ok(p) => p,
        Err(_) => {
            assert!(false, "pack failed");
            return;
        }
    };
    assert!(packed.len() == 1 + 9 + 1 + 4, "C09-PACK: layout length");
    assert!(packed[0] == 3 && packed[1] == 2, "C09-PACK: header");
    let mut i = 0;
    while i < 8 {
        assert!(packed[2 + i] == (bits >> (8 * (7 - i))) as u8, "C09-PACK: real payload is not the big-endian bit pattern");
        i += 1;
    }
    assert!(packed[10] == 5, "C09-PACK: null");
    assert!(packed[11] == (1 << 3) | (if as_text { 3 } else { 4 }) && packed[12] == 2, "C09-PACK: text/blob header");
    assert!(packed[13] == raw[0] && packed[14] == raw[1], "C09-PACK: text/blob payload");
    core::mem::forget(packed);
    core::mem::forget(cols);
}

/// unpack side, other kinds: a key in that layout unpacks to the same values
#[kani::proof]
#[kani::unwind(10)]
#[kani::stub(alloc::fmt::format, stub_format)]
fn c09_unpack_mixed_layout() {
    let bits: u64 = kani::any();
    let raw: [u8; 2] = kani::any();
    let as_text: bool = kani::any();
    let mut buf = [0u8; 15];
    buf[0] = 3;
    buf[1] = 2;
    let mut i = 0;
    while i < 8 {
        buf[2 + i] = (bits >> (8 * (7 - i))) as u8;
        i += 1;
    }
    buf[10] = 5;
    buf[11] = (1 << 3) | (if as_text { 3 } else { 4 });
    buf[12] = 2;
    buf[13] = raw[0];
    buf[14] = raw[1];
    match unpack_columns(&buf) {
        Ok(cols) => {
            assert!(cols.len() == 3);
            match cols[0].0 {
                ValueRef::Real(d) => {
                    assert!(d.to_bits() == bits, "C09-PACK: real key does not unpack to the same bits")
                }
                _ => {
                    assert!(false, "C09-PACK: wrong column type")
                }
            }
            assert!(matches!(cols[1].0, ValueRef::Null));
            match (cols[2].0, as_text) {
                (ValueRef::Text(b), true) | (ValueRef::Blob(b), false) => {
                    assert!(b.len() == 2 && b[0] == raw[0] && b[1] == raw[1], "C09-PACK: text/blob key payload")
                }
                _ => {
                    assert!(false, "C09-PACK: wrong column type")
                }
            }
            core::mem::forget(cols);
        }
        Err(_) => {
            assert!(false, "C09-PACK: a well-formed key does not unpack");
        }
    }
}

/// unpack side, length boundary: a text / blob key whose one-byte length has its top bit set
/// (128..=200 payload bytes — where a sign-extending read of the length goes wrong) unpacks to
/// exactly that many bytes; a length that promises more than the key holds is an error
#[kani::proof]
#[kani::unwind(4)]
#[kani::stub(alloc::fmt::format, stub_format)]
fn c09_unpack_long_payload_length_boundary() {
    let n: u8 = kani::any();
    let as_text: bool = kani::any();
    let held: usize = kani::any();
    kani::assume(held == 127 || held == 128 || held == 129 || held == 200);
    let mut buf = [0x41u8; 203];
    buf[0] = 1;
    buf[1] = (1 << 3) | (if as_text { 3 } else { 4 });
    buf[2] = n;
    let key = &buf[..3 + held];
    match unpack_columns(key) {
        Ok(cols) => {
            assert!((n as usize) <= held, "C09-PACK: a length beyond the key's end was accepted");
            assert!(cols.len() == 1);
            match (cols[0].0, as_text) {
                (ValueRef::Text(b), true) | (ValueRef::Blob(b), false) => {
                    assert!(b.len() == n as usize, "C09-PACK: text/blob key payload length")
                }
                _ => {
                    assert!(false, "C09-PACK: wrong column type")
                }
            }
            kani::cover!(n >= 128, "a payload of 128 bytes or more unpacks");
            core::mem::forget(cols);
        }
        Err(_) => {
            assert!((n as usize) > held, "C09-PACK: a well-formed key with a long text/blob column does not unpack");
        }
    }
}

/// SyncStateV1 encoder, degenerate entries: an actor whose need list is empty and a partial
/// version whose missing-sequence list is empty are still described by the prefixes around them
/// (what the decoder reads back is the same maps) — concrete shape, layout checked byte by byte
#[kani::proof]
#[kani::unwind(10)]
#[kani::stub(alloc::fmt::format, stub_format)]
fn c09_state_encode_prefixes_with_empty_lists() {
    let a1 = ActorId(Uuid::from_bytes([1; 16]));
    let mut st = SyncStateV1 { actor_id: ActorId(Uuid::from_bytes([9; 16])), ..Default::default() };
    st.need.insert(a1, Vec::new());
    let mut m = HashMap::new();
    m.insert(CrsqlDbVersion(10), Vec::new());
    st.partial_need.insert(a1, m);
    st.last_cleared_ts = None;
    let bytes = match <SyncStateV1 as Writable<LE>>::write_to_vec(&st) {
        Ok(b) => b,
        Err(_) => {
            assert!(false, "encode failed");
            return;
        }
    };
    let u64_at = |o: usize| -> u64 {
        let mut v = 0u64;
        let mut k = 0;
        while k < 8 {
            v |= (bytes[o + k] as u64) << (8 * k);
            k += 1;
        }
        v
    };
    // actor 16 | heads u32 0 | need: u64 1, actor 16, u64 0 | partial: u64 1, actor 16, u64 1, version u64, u64 0 | ts 0
    let expect_len = 16 + 4 + (8 + 16 + 8) + (8 + 16 + 8 + 8 + 8) + 1;
    assert!(bytes.len() == expect_len, "C09-RT: an entry with an empty list is counted by its length prefix but not written (or the reverse)");
    assert!(u64_at(20) == 1 && bytes[28] == 1 && u64_at(44) == 0, "C09-RT: need entry with an empty range list");
    assert!(u64_at(52) == 1 && bytes[60] == 1 && u64_at(76) == 1 && u64_at(84) == 10 && u64_at(92) == 0, "C09-RT: partial entry with an empty sequence list");
    assert!(bytes[100] == 0);
    core::mem::forget(st);
    core::mem::forget(bytes);
}

/// more than 255 key columns cannot be packed: error, not truncation
#[kani::proof]
#[kani::unwind(3)]
#[kani::stub(alloc::fmt::format, stub_format)]
fn c09_pack_too_many_columns_is_error() {
    let cols: [SqliteValue; 256] = [const { SqliteValue::Null }; 256];
    assert!(pack_columns(&cols).is_err());
    core::mem::forget(cols);
}

macro_rules! unpack_total {
    ($name:ident, $len:expr, $maxcols:expr, $unwind:expr) => {
        #[kani::proof]
        #[kani::unwind($unwind)]
        #[kani::stub(alloc::fmt::format, stub_format)]
        fn $name() {
            let buf: [u8; $len] = kani::any();
            // arbitrary bytes (e.g. a corrupted or hostile key): must return Ok or Err.
            // BOUND: the column-count byte is <= $maxcols (every column is decoded by the same
            // loop body from wherever the cursor stands)
            if $len > 0 {
                kani::assume(buf[0] <= $maxcols);
            }
            let r = unpack_columns(&buf);
            kani::cover!(true, "decoder returned");
            core::mem::forget(r);
        }
    };
}
unpack_total!(c09_unpack_total_l00, 0, 0, 3);
unpack_total!(c09_unpack_total_l01, 1, 255, 3);
unpack_total!(c09_unpack_total_l03, 3, 255, 5);
unpack_total!(c09_unpack_total_l06, 6, 2, 4);
unpack_total!(c09_unpack_total_l11, 11, 1, 3);
