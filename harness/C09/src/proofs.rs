// ---------------------------------------------------------------------------------------------
// stubs: formatting is not the subject; allocation requests are checked against the input size
// ---------------------------------------------------------------------------------------------

/// length of the peer-supplied buffer of the running harness (set before decoding)
static mut INPUT_LEN: usize = 0;
/// slack allowed on top of the input length for a pre-allocation request (elements)
const PREALLOC_SLACK: usize = 4096;

fn stub_format(_args: core::fmt::Arguments<'_>) -> String {
    String::new()
}

/// `Vec::with_capacity(n)` reached from a decoder: the request must be related to the input size
fn stub_vec_with_capacity<T>(n: usize) -> Vec<T> {
    let input = unsafe { INPUT_LEN };
    assert!(n <= input + PREALLOC_SLACK, "C09-ALLOC: Vec::with_capacity request unrelated to input size");
    kani::assume(n <= input + PREALLOC_SLACK);
    // the real allocation (callers such as speedy's read_vec rely on the capacity being there);
    // `with_capacity_in` does not go through `with_capacity`, so the stub does not recurse
    Vec::with_capacity_in(n, std::alloc::Global)
}
fn stub_hashmap_with_capacity<K, V>(n: usize) -> HashMap<K, V> {
    let input = unsafe { INPUT_LEN };
    assert!(n <= input + PREALLOC_SLACK, "C09-ALLOC: HashMap::with_capacity request unrelated to input size");
    kani::assume(n <= input + PREALLOC_SLACK);
    HashMap::new()
}

macro_rules! decode_total {
    ($name:ident, $ty:ty, $len:expr, $unwind:expr $(, prefix = [$($p:expr),*])?) => {
        #[kani::proof]
        #[kani::unwind($unwind)]
        #[kani::stub(alloc::fmt::format, stub_format)]
        #[kani::stub(std::vec::Vec::with_capacity, stub_vec_with_capacity)]
        fn $name() {
            let mut buf: [u8; $len] = kani::any();
            $( let prefix = [$($p),*]; let mut i = 0; while i < prefix.len() { buf[i] = prefix[i]; i += 1; } )?
            unsafe { INPUT_LEN = $len };
            // must return: Ok or Err, never panic / abort / overflow
            let r = <$ty as Readable<speedy::LittleEndian>>::read_from_buffer(&buf);
            kani::cover!(r.is_ok(), "some input decodes");
            kani::cover!(r.is_err(), "some input is rejected");
            core::mem::forget(r);
        }
    };
}

decode_total!(c09_need_decode_len9, SyncNeedV1, 9, 4);
decode_total!(c09_need_decode_len17, SyncNeedV1, 17, 4);
