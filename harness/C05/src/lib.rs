//! C05 (in part) — a sync server answers a partially buffered version with exactly the buffered
//! ranges, and skips needs it cannot serve.  Sliced: the buffered-range answering statements of
//! handle_need's Partial branch, send_change_chunks, ChunkedChanges, the per-version predicate of
//! process_sync's filter, the overlap SELECT text (E2).
#![allow(unused_imports, dead_code, unused_variables, unused_mut, clippy::all)]
#![feature(step_trait)]

pub mod host {
    use std::cmp;
    use std::iter::Peekable;
    use std::ops::{Add, RangeInclusive, Sub};
    use std::time::Duration;
    use venv::avec as vec;
    use venv::chan::Sender;
    use venv::collections::{BTreeMap, Vec};
    use venv::eyre;
    use venv::rangemap::{RangeInclusiveSet, StepLite};
    use venv::sql::{Backend, ParamList, Row, RowSet, SqlTable, Val};
    use venv::time::Instant;
    use venv::{assert_always, debug, error, json, named_params, pid, trace, warn};
    pub mod rusqlite {
        pub use venv::sqlite::{Error, Result};
    }
    pub type Connection = venv::sql::Conn<Db>;

    #[derive(Debug, Default, Clone, Copy, Eq, PartialEq, Ord, PartialOrd, Hash)]
    pub struct ActorId(pub u8);
    #[derive(Debug, Default, Clone, Copy, Eq, PartialEq, Ord, PartialOrd, Hash)]
    pub struct Timestamp(pub u64);
    #[derive(Debug, Clone, PartialEq)]
    pub enum SyncMessage {
        V1(SyncMessageV1),
    }
    #[derive(Debug, Clone, PartialEq)]
    pub enum SyncMessageV1 {
        Changeset(ChangeV1),
    }
    /// ABSTRACTION: a change row is {seq, estimated size, tag}
    #[derive(Clone, Copy, Debug, PartialEq, Eq)]
    pub struct Change {
        pub seq: CrsqlSeq,
        pub size: usize,
        pub tag: u8,
    }
    impl Change {
        pub fn estimated_byte_size(&self) -> usize {
            self.size
        }
    }
    /// stand-in for change::row_to_change: the model returns (seq, size, tag) columns
    pub fn row_to_change(row: &Row) -> rusqlite::Result<Change> {
        Ok(Change { seq: CrsqlSeq(row.get(0)?), size: row.get::<u64>(1)? as usize, tag: row.get::<u64>(2)? as u8 })
    }
    macro_rules! to_val_u64 {
        ($($t:ident),*) => {$(
            impl venv::sql::ToVal for $t {
                fn to_val(&self) -> Val { Val::U64(self.0 as u64) }
            }
        )*};
    }
    to_val_u64!(ActorId, Timestamp, CrsqlDbVersion, CrsqlSeq);

    include!("sliced/base.rs");
    include!("sliced/change.rs");
    include!("sliced/broadcast.rs");
    include!("sliced/agent.rs");
    include!("sliced/sync.rs");
    include!("sliced/peer.rs");

    /// model of __corro_buffered_changes for one (actor, version): which seqs have a buffered row
    pub struct Db {
        pub actor: ActorId,
        pub version: u64,
        pub rows: u32,
        pub sizes: [usize; 8],
    }
    static SQL: SqlTable<1> = SqlTable::new([SQL_BUFFERED_RANGE]);
    impl Backend for Db {
        fn execute(&mut self, _sql: &'static str, _p: &ParamList) -> rusqlite::Result<usize> {
            panic!("VENV-SQL: no write statement expected");
        }
        fn query(&mut self, sql: &'static str, p: &ParamList) -> rusqlite::Result<RowSet> {
            assert!(SQL.classify(sql) == 0);
            let u = |v: Val| match v {
                Val::U64(x) => x,
                _ => panic!("VENV-SQL: integer parameter expected"),
            };
            assert!(u(p.named(pid!(":actor_id"))) == self.actor.0 as u64 && u(p.named(pid!(":version"))) == self.version, "VENV-SQL: other actor/version");
            let (a, b) = (u(p.named(pid!(":start_seq"))), u(p.named(pid!(":end_seq"))));
            // WHERE ... seq BETWEEN :start_seq AND :end_seq ORDER BY seq ASC
            let mut out = RowSet::empty();
            let mut s = 0u64;
            while s < 8 {
                if self.rows & (1 << s) != 0 && a <= s && s <= b {
                    out.push(&[Val::U64(s), Val::U64(self.sizes[s as usize] as u64), Val::U64(s)]);
                }
                s += 1;
            }
            Ok(out)
        }
    }

    #[cfg(kani)]
    mod proofs {
        use super::*;
        include!("proofs.rs");
    }
}
