//! C05 (in part) — a sync server answers a partially buffered version with exactly the buffered
//! ranges, and skips needs it cannot serve.  Sliced: the buffered-range answering statements of
//! handle_need's Partial branch, send_change_chunks, ChunkedChanges, the per-version predicate of
//! process_sync's filter, the overlap SELECT text (E2).
#![allow(unused_imports, dead_code, unused_variables, unused_mut, clippy::all)]
#![feature(step_trait)]

pub mod host {
    include!("host_body.rs");
    include!("sliced/send.rs");

    #[cfg(kani)]
    mod proofs {
        use super::*;
        include!("proofs.rs");
    }
}

/// Compositional variant for the per-change tier: the sliced answering statements run against a
/// RECORDER in place of `send_change_chunks`, which notes what it was asked to stream — the rows
/// the query produced and the `ChunkedChanges` it was handed (start, end, size limit).  That
/// `send_change_chunks(ChunkedChanges::new(rows, start, end, ..))` puts exactly the tiling of
/// [start, end] with exactly those rows on the wire is C08's claim, checked there on the same
/// sliced functions.
pub mod compose {
    include!("host_body.rs");

    #[derive(Clone, Copy)]
    pub struct Call {
        pub start: u64,
        pub end: u64,
        pub last_seq: u64,
        pub rows: u32,
        pub ascending: bool,
        pub actor: u8,
        pub version: u64,
        pub max_buf_size: usize,
    }
    pub static mut CALLS: [Option<Call>; 3] = [None; 3];
    pub static mut N_CALLS: usize = 0;
    pub fn send_change_chunks<I: Iterator<Item = rusqlite::Result<Change>>>(
        _sender: &Sender<SyncMessage>,
        mut chunked: ChunkedChanges<I>,
        actor_id: ActorId,
        version: CrsqlDbVersion,
        last_seq: CrsqlSeq,
        _ts: Timestamp,
    ) -> eyre::Result<()> {
        let mut rows = 0u32;
        let mut ascending = true;
        let mut prev: Option<u64> = None;
        let mut k = 0;
        while k < SEQS {
            match chunked.iter.next() {
                Some(Ok(c)) => {
                    if let Some(p) = prev {
                        if c.seq.0 <= p {
                            ascending = false;
                        }
                    }
                    prev = Some(c.seq.0);
                    if c.seq.0 < 32 {
                        rows |= 1 << c.seq.0;
                    }
                }
                Some(Err(_)) => return Err(eyre::Report),
                None => break,
            }
            k += 1;
        }
        unsafe {
            assert!(N_CALLS < 3, "VENV-CAPACITY: more send_change_chunks calls than the bound allows");
            CALLS[N_CALLS] = Some(Call {
                start: chunked.last_start_seq.0,
                end: chunked.last_seq.0,
                last_seq: last_seq.0,
                rows,
                ascending,
                actor: actor_id.0,
                version: version.0,
                max_buf_size: chunked.max_buf_size,
            });
            N_CALLS += 1;
        }
        core::mem::forget(chunked);
        Ok(())
    }

    #[cfg(kani)]
    mod proofs {
        use super::*;
        include!("proofs_compose.rs");
    }
}

/// One need is answered from ONE snapshot: the handle `handle_need` runs all its queries on (the
/// range query, the per-version gap / buffered probes, the bookkeeping lookups) is a transaction
/// opened on the connection before the first query — not the bare connection, on which every
/// statement would see its own snapshot and a version applied in between would be declared empty.
/// Sliced: the statement that binds `tx`.  (The borrow checker does the rest: while `tx` borrows
/// `conn` mutably no query can go around it.)  Snapshot isolation itself is SQLite's.
pub mod snapshot {
    pub use venv::eyre;
    pub struct Connection {
        pub transactions_opened: u32,
    }
    pub struct Transaction<'a> {
        pub conn: &'a mut Connection,
    }
    #[derive(Debug)]
    pub struct SqlError;
    impl eyre::EnvError for SqlError {}
    impl Connection {
        /// rusqlite: BEGIN DEFERRED — a read transaction once the first SELECT has run
        pub fn transaction(&mut self) -> Result<Transaction<'_>, SqlError> {
            self.transactions_opened += 1;
            Ok(Transaction { conn: self })
        }
        pub fn unchecked_transaction(&self) -> Result<(), SqlError> {
            Err(SqlError)
        }
    }
    impl<'a> core::ops::Deref for Transaction<'a> {
        type Target = Connection;
        fn deref(&self) -> &Connection {
            self.conn
        }
    }
    pub trait ReadHandle {
        fn pins_one_snapshot(&self) -> bool;
    }
    impl ReadHandle for Transaction<'_> {
        fn pins_one_snapshot(&self) -> bool {
            true
        }
    }
    impl ReadHandle for &Connection {
        fn pins_one_snapshot(&self) -> bool {
            false
        }
    }
    impl ReadHandle for &mut Connection {
        fn pins_one_snapshot(&self) -> bool {
            false
        }
    }
    include!("sliced/snapshot.rs");

    #[cfg(kani)]
    mod proofs {
        use super::*;
        include!("proofs_snapshot.rs");
    }
}
