// Bounds: sequences 0..=5, <= 3 buffered rows inside the answered range, symbolic clock.
const M: u64 = env_num(option_env!("VERIF_C05_M"), 5);
const MAX_ROWS_IN_RANGE: u32 = env_num(option_env!("VERIF_C05_ROWS"), 3) as u32;
const fn env_num(s: Option<&str>, d: u64) -> u64 {
    match s {
        Some(s) => (s.as_bytes()[0] - b'0') as u64,
        None => d,
    }
}
const _: () = assert!(M < SEQS, "the table model must range over every sequence the harness uses");
fn bits(lo: u64, hi: u64) -> u32 {
    if lo > hi {
        0
    } else {
        (((1u64 << (hi + 1)) - 1) & !((1u64 << lo) - 1)) as u32
    }
}

/// A partially buffered version, one stored range [hs,he] (what __corro_seq_bookkeeping returned
/// for the lookup) and one requested range [rs,re] that overlaps it: what goes on the wire are
/// changesets whose sequence ranges tile EXACTLY held ∩ requested — never a sequence the server
/// does not hold — carrying exactly the buffered rows of that intersection.
#[kani::proof]
#[kani::unwind(10)]
fn c05_partial_answer_is_exactly_the_buffered_range() {
    let (hs, he, rs, re, last): (u64, u64, u64, u64, u64) = (kani::any(), kani::any(), kani::any(), kani::any(), kani::any());
    kani::assume(hs <= he && he <= last && rs <= re && re <= last && last <= M);
    kani::assume(hs <= re && rs <= he); // the lookup only returns overlapping stored ranges (E2)
    let rows: u32 = kani::any();
    kani::assume(rows & !bits(hs, he) == 0); // buffered rows lie inside the stored range
    let lo = if hs > rs { hs } else { rs };
    let hi = if he < re { he } else { re };
    kani::assume((rows & bits(lo, hi)).count_ones() <= MAX_ROWS_IN_RANGE);
    let sizes: [usize; 8] = kani::any();
    let mut i = 0;
    while i <= M as usize {
        kani::assume(sizes[i] <= usize::MAX / 16);
        i += 1;
    }
    let conn = venv::sql::Conn::new(Db { actor: ActorId(3), version: 7, rows, sizes, have: 0, last_seq: 0, ts: 0, gaps: 0 });
    let sender: Sender<SyncMessage> = Sender::new(false);
    let res = answer_partial_from_buffer(&conn, &sender, ActorId(3), CrsqlDbVersion(7), CrsqlSeq(hs)..=CrsqlSeq(he), CrsqlSeq(rs)..=CrsqlSeq(re), CrsqlSeq(last), Timestamp(1));
    if res.is_ok() {
        let n = sender.sent();
        let log = sender.log.borrow();
        let mut expect_start = lo;
        let mut reached = false;
        let mut carried = 0u32;
        let mut k = 0;
        while k < n {
            assert!(!reached);
            match &log[k] {
                Some(SyncMessage::V1(SyncMessageV1::Changeset(ChangeV1 { actor_id, changeset: Changeset::Full { version, changes, seqs, last_seq, .. } }))) => {
                    assert!(actor_id.0 == 3 && version.0 == 7 && last_seq.0 == last);
                    let (a, b) = (seqs.start().0, seqs.end().0);
                    assert!(a == expect_start && a <= b, "C05: answered ranges are not contiguous from the first held-and-requested sequence");
                    assert!(b <= hi, "C05: the server claims sequences beyond what it holds of the requested range");
                    for c in changes.iter() {
                        assert!(c.seq.0 >= a && c.seq.0 <= b, "C05: change outside the range of the changeset carrying it");
                        assert!(rows & (1 << c.seq.0) != 0 && carried & (1 << c.seq.0) == 0);
                        carried |= 1 << c.seq.0;
                    }
                    if b == hi {
                        reached = true;
                    } else {
                        expect_start = b + 1;
                    }
                }
                _ => {
                    assert!(false, "C05: unexpected message")
                }
            }
            k += 1;
        }
        if lo == 0 && hi == last && rows == 0 {
            // the whole version is buffered (so it is not a PARTIALLY buffered version) without a
            // single row: send_change_chunks logs "got an empty changes we should've had" and
            // answers nothing.  Silence claims nothing; the property's clauses do not cover it.
            assert!(n == 0, "C05: unexpected answer for a fully buffered version without rows");
        } else {
            assert!(n >= 1 && reached, "C05: the held part of the requested range was not answered completely");
        }
        assert!(carried == rows & bits(lo, hi), "C05: the buffered rows of the answered range were not sent exactly once");
    }
    kani::cover!(res.is_ok() && he < re, "request extends past the held range");
    kani::cover!(res.is_ok() && sender.sent() >= 2, "several changesets");
    core::mem::forget(sender);
}

/// process_sync skips a Full need ⟺ every requested version is unknown to the server (listed as
/// needed or beyond its head); the per-version predicate is exactly that
#[kani::proof]
#[kani::unwind(6)]
fn c05_need_filter_version_unknown_iff_needed_or_beyond_head() {
    let head: u64 = kani::any();
    kani::assume(head <= 6);
    let (gs, ge): (u64, u64) = (kani::any(), kani::any());
    let has_gap: bool = kani::any();
    kani::assume(!has_gap || (1 <= gs && gs <= ge && ge < head));
    let mut bv = BookedVersions::new(ActorId(3));
    if head > 0 {
        bv.max = Some(CrsqlDbVersion(head));
    }
    if has_gap {
        bv.needed.insert(CrsqlDbVersion(gs)..=CrsqlDbVersion(ge));
    }
    let v: u64 = kani::any();
    kani::assume(v >= 1 && v <= 8);
    let unknown = full_need_version_unknown(&bv, CrsqlDbVersion(v));
    let expect = (has_gap && gs <= v && v <= ge) || (head > 0 && v > head);
    assert!(unknown == expect, "C05: the server's 'cannot serve this version' predicate is not 'needed by us or beyond our head'");
    core::mem::forget(bv);
}

// ---------------------------------------------------------------------------------------------
// Full need, a requested version without live rows in crsql_changes (the `unprocessed` loop of
// handle_need): the server declares it EMPTY only if it neither lists it as needed (inside a gap)
// nor holds buffered rows of it; a version it holds partially is answered range by range with
// exactly the buffered rows of each bookkept range, and is never declared empty.
// ---------------------------------------------------------------------------------------------
#[kani::proof]
fn c05_version_declared_empty_only_if_neither_needed_nor_buffered() {
    let gaps: u32 = kani::any();
    kani::assume(gaps & !bits(1, 8) == 0);
    let version: u64 = kani::any();
    kani::assume(version >= 1 && version <= 8);
    // no buffered row at all (concretely: keeps the solver out of the answering path, which the
    // next harness covers)
    let conn = venv::sql::Conn::new(Db { actor: ActorId(3), version: 7, rows: 0, sizes: [0; 8], have: 0, last_seq: 0, ts: 0, gaps });
    let sender: Sender<SyncMessage> = Sender::new(false);
    let mut empties: RangeInclusiveSet<CrsqlDbVersion> = RangeInclusiveSet::new();
    let res = answer_version_without_live_rows(&conn, &sender, ActorId(3), CrsqlDbVersion(version), &mut empties);
    assert!(res.is_ok());
    let needed = gaps & (1 << version) != 0;
    assert!(sender.sent() == 0, "C05: something sent for a version without live or buffered rows");
    if needed {
        assert!(empties.is_empty(), "C05: a version the server lists as needed is declared empty");
    } else {
        assert!(empties.len() == 1 && empties.contains(&CrsqlDbVersion(version)) && !empties.contains(&CrsqlDbVersion(version + 1)) && (version == 1 || !empties.contains(&CrsqlDbVersion(version - 1))), "C05: a held version without live changes is not declared empty (exactly it)");
    }
    kani::cover!(needed, "needed version stays silent");
    kani::cover!(!needed, "empty declared");
    core::mem::forget((sender, empties));
}

#[kani::proof]
fn c05_partially_buffered_version_is_answered_range_by_range_never_empty() {
    let last: u64 = kani::any();
    kani::assume(last <= M);
    let have: u32 = kani::any();
    kani::assume(have != 0 && have & !bits(0, last) == 0);
    let rows: u32 = kani::any();
    kani::assume(rows != 0 && rows & !have == 0 && rows.count_ones() <= MAX_ROWS_IN_RANGE);
    let in_gap: bool = kani::any(); // whatever the gap table says once rows are buffered
    let sizes: [usize; 8] = kani::any();
    let mut i = 0;
    while i <= M as usize {
        kani::assume(sizes[i] <= usize::MAX / 16);
        i += 1;
    }
    let conn = venv::sql::Conn::new(Db { actor: ActorId(3), version: 7, rows, sizes, have, last_seq: last, ts: 1, gaps: if in_gap { 1 << 7 } else { 0 } });
    let sender: Sender<SyncMessage> = Sender::new(false);
    let mut empties: RangeInclusiveSet<CrsqlDbVersion> = RangeInclusiveSet::new();
    let res = answer_version_without_live_rows(&conn, &sender, ActorId(3), CrsqlDbVersion(7), &mut empties);
    assert!(empties.is_empty(), "C05: a partially held version is declared empty");
    if res.is_ok() {
        let n = sender.sent();
        let log = sender.log.borrow();
        let mut covered = 0u32;
        let mut carried = 0u32;
        let mut k = 0;
        while k < n {
            match &log[k] {
                Some(SyncMessage::V1(SyncMessageV1::Changeset(ChangeV1 { actor_id, changeset: Changeset::Full { version, changes, seqs, last_seq, .. } }))) => {
                    assert!(actor_id.0 == 3 && version.0 == 7 && last_seq.0 == last);
                    let (a, b) = (seqs.start().0, seqs.end().0);
                    assert!(a <= b && b <= last);
                    let m = bits(a, b);
                    assert!(m & !have == 0, "C05: the server claims sequences it does not hold");
                    assert!(m & covered == 0, "C05: a sequence range answered twice");
                    covered |= m;
                    for c in changes.iter() {
                        assert!(c.seq.0 >= a && c.seq.0 <= b, "C05: change outside the range of the changeset carrying it");
                        assert!(rows & (1 << c.seq.0) != 0 && carried & (1 << c.seq.0) == 0);
                        carried |= 1 << c.seq.0;
                    }
                }
                _ => {
                    assert!(false, "C05: unexpected message")
                }
            }
            k += 1;
        }
        // ranges that hold at least one row are answered completely; (a bookkept range spanning the
        // whole version without a single row is the documented silent case)
        assert!(carried == rows, "C05: the buffered rows were not sent exactly once");
        assert!(covered & !have == 0);
        kani::cover!(n >= 2, "two bookkept ranges answered");
    }
    core::mem::forget((sender, empties));
}
