// Compositional harnesses (module `compose`): what the answering statements ASK send_change_chunks to
// stream.  Bounds: sequences 0..=M (M <= 7), any buffered row set, any bookkept sequence set.
const M: u64 = env_num(option_env!("VERIF_C05_CM"), 5);
const fn env_num(s: Option<&str>, d: u64) -> u64 {
    match s {
        Some(s) => (s.as_bytes()[0] - b'0') as u64,
        None => d,
    }
}
const _: () = assert!(M < SEQS, "the table model must range over every sequence the harness uses");
fn bits(lo: u64, hi: u64) -> u32 {
    if lo > hi {
        0
    } else {
        (((1u64 << (hi + 1)) - 1) & !((1u64 << lo) - 1)) as u32
    }
}
fn reset() {
    unsafe {
        N_CALLS = 0;
        CALLS = [None; 3];
    }
}
fn call(i: usize) -> Call {
    match unsafe { CALLS[i] } {
        Some(c) => c,
        None => panic!("missing call"),
    }
}

/// Partial need, buffered branch: ONE stream is requested, for exactly held ∩ requested, carrying
/// exactly the buffered rows of that intersection in ascending order, labelled with the version's
/// real last_seq and the configured chunk size limit.
#[kani::proof]
#[kani::unwind(10)]
fn c05_partial_need_streams_exactly_held_and_requested() {
    let (hs, he, rs, re, last): (u64, u64, u64, u64, u64) = (kani::any(), kani::any(), kani::any(), kani::any(), kani::any());
    kani::assume(hs <= he && he <= last && rs <= re && re <= last && last <= M);
    kani::assume(hs <= re && rs <= he); // the lookup only returns overlapping stored ranges (E2)
    let rows: u32 = kani::any();
    kani::assume(rows & !bits(hs, he) == 0);
    kani::assume(rows.count_ones() <= 4); // result-set capacity of the table model
    let lo = if hs > rs { hs } else { rs };
    let hi = if he < re { he } else { re };
    reset();
    let conn = venv::sql::Conn::new(Db { actor: ActorId(3), version: 7, rows, sizes: [1; 8], have: 0, last_seq: 0, ts: 0, gaps: 0 });
    let sender: Sender<SyncMessage> = Sender::new(false);
    let res = answer_partial_from_buffer(&conn, &sender, ActorId(3), CrsqlDbVersion(7), CrsqlSeq(hs)..=CrsqlSeq(he), CrsqlSeq(rs)..=CrsqlSeq(re), CrsqlSeq(last), Timestamp(1));
    assert!(res.is_ok());
    assert!(unsafe { N_CALLS } == 1, "C05: the held part of the requested range was not answered (or answered twice)");
    let c = call(0);
    assert!(c.actor == 3 && c.version == 7 && c.last_seq == last, "C05: answer labelled with another actor / version / last_seq");
    assert!(c.start == lo, "C05: answered ranges do not start at the first held-and-requested sequence");
    assert!(c.end == hi, "C05: the server claims sequences beyond what it holds of the requested range (or stops short of it)");
    assert!(c.rows == rows & bits(lo, hi) && c.ascending, "C05: the buffered rows of the answered range were not handed over exactly once, in order");
    assert!(c.max_buf_size == MAX_CHANGES_BYTES_PER_MESSAGE);
    kani::cover!(he < re && hs > rs, "request sticks out on both sides");
    kani::cover!(c.rows != rows, "some buffered rows are outside the request");
    core::mem::forget(sender);
}

/// Full need, partially buffered version: one stream per bookkept range, in ascending order, each
/// for exactly that range with exactly its buffered rows; the version is not declared empty.
#[kani::proof]
#[kani::unwind(10)]
fn c05_full_need_streams_each_bookkept_range_of_a_partial_version() {
    let last: u64 = kani::any();
    kani::assume(last <= M);
    let have: u32 = kani::any();
    kani::assume(have != 0 && have & !bits(0, last) == 0);
    let rows: u32 = kani::any();
    kani::assume(rows != 0 && rows & !have == 0 && rows.count_ones() <= 4);
    let in_gap: bool = kani::any();
    // at most 3 bookkept ranges (the recorder's capacity)
    let runs = (have & !(have << 1)).count_ones();
    kani::assume(runs <= 3);
    reset();
    let conn = venv::sql::Conn::new(Db { actor: ActorId(3), version: 7, rows, sizes: [1; 8], have, last_seq: last, ts: 1, gaps: if in_gap { 1 << 7 } else { 0 } });
    let sender: Sender<SyncMessage> = Sender::new(false);
    let mut empties: RangeInclusiveSet<CrsqlDbVersion> = RangeInclusiveSet::new();
    let res = answer_version_without_live_rows(&conn, &sender, ActorId(3), CrsqlDbVersion(7), &mut empties);
    assert!(res.is_ok());
    assert!(empties.is_empty(), "C05: a partially held version is declared empty");
    let n = unsafe { N_CALLS };
    assert!(n as u32 == runs, "C05: not every bookkept range of a partially buffered version was answered (or one twice)");
    let mut covered = 0u32;
    let mut k = 0;
    while k < 3 {
        if k < n {
            let c = call(k);
            assert!(c.actor == 3 && c.version == 7 && c.last_seq == last);
            let m = bits(c.start, c.end);
            assert!(c.start <= c.end && m & !have == 0, "C05: the server claims sequences it does not hold");
            // a maximal run of the bookkept set, each once
            assert!((c.start == 0 || have & (1 << (c.start - 1)) == 0) && have & (1 << (c.end + 1)) == 0, "C05: answered range is not a bookkept range");
            assert!(m & covered == 0, "C05: a sequence range answered twice");
            covered |= m;
            assert!(c.rows == rows & m && c.ascending, "C05: the buffered rows of a bookkept range were not handed over exactly once");
        }
        k += 1;
    }
    assert!(covered == have, "C05: answered ranges differ from the bookkept ranges");
    kani::cover!(n >= 2, "two bookkept ranges");
    core::mem::forget((sender, empties));
}
