#[kani::proof]
fn c05_need_is_answered_from_one_snapshot() {
    let mut conn = Connection { transactions_opened: 0 };
    match open_read_handle(&mut conn) {
        Ok(h) => {
            assert!(h.pins_one_snapshot(), "C05: handle_need runs its queries on the bare connection, not inside one read transaction: the range query and the per-version probes can see different database states");
            kani::cover!(true, "handle obtained");
        }
        Err(_) => {}
    }
}
