// shared by the two host modules of lib.rs (`host`: everything sliced; `compose`: send_change_chunks
// replaced by a recorder, its own behaviour being C08's subject)
    use std::cmp;
    use std::iter::Peekable;
    use std::ops::{Add, RangeInclusive, Sub};
    use std::time::Duration;
    use venv::avec as vec;
    use venv::chan::Sender;
    use venv::collections::{BTreeMap, Vec};
    use venv::eyre;
    use venv::rangemap::{RangeInclusiveSet, StepLite};
    use venv::sql::{Backend, ParamList, Row, RowSet, SqlTable, Val};
    use venv::time::Instant;
    use venv::{assert_always, debug, error, json, named_params, pid, trace, warn};
    pub mod rusqlite {
        pub use venv::sqlite::{Error, Result};
    }
    pub type Connection = venv::sql::Conn<Db>;

    #[derive(Debug, Default, Clone, Copy, Eq, PartialEq, Ord, PartialOrd, Hash)]
    pub struct ActorId(pub u8);
    #[derive(Debug, Default, Clone, Copy, Eq, PartialEq, Ord, PartialOrd, Hash)]
    pub struct Timestamp(pub u64);
    #[derive(Debug, Clone, PartialEq)]
    pub enum SyncMessage {
        V1(SyncMessageV1),
    }
    #[derive(Debug, Clone, PartialEq)]
    pub enum SyncMessageV1 {
        Changeset(ChangeV1),
    }
    /// ABSTRACTION: a change row is {seq, estimated size, tag}
    #[derive(Clone, Copy, Debug, PartialEq, Eq)]
    pub struct Change {
        pub seq: CrsqlSeq,
        pub size: usize,
        pub tag: u8,
    }
    impl Change {
        pub fn estimated_byte_size(&self) -> usize {
            self.size
        }
    }
    /// stand-in for change::row_to_change: the model returns (seq, size, tag) columns
    pub fn row_to_change(row: &Row) -> rusqlite::Result<Change> {
        Ok(Change { seq: CrsqlSeq(row.get(0)?), size: row.get::<u64>(1)? as usize, tag: row.get::<u64>(2)? as u8 })
    }
    macro_rules! to_val_u64 {
        ($($t:ident),*) => {$(
            impl venv::sql::ToVal for $t {
                fn to_val(&self) -> Val { Val::U64(self.0 as u64) }
            }
        )*};
    }
    to_val_u64!(ActorId, Timestamp, CrsqlDbVersion, CrsqlSeq);
    macro_rules! from_val_u64 {
        ($($t:ident),*) => {$(
            impl venv::sql::FromVal for $t {
                fn from_val(v: Val) -> rusqlite::Result<Self> { <u64 as venv::sql::FromVal>::from_val(v).map($t) }
            }
        )*};
    }
    from_val_u64!(Timestamp, CrsqlSeq);

    include!("sliced/base.rs");
    include!("sliced/change.rs");
    include!("sliced/broadcast.rs");
    include!("sliced/agent.rs");
    include!("sliced/sync.rs");
    include!("sliced/peer.rs");

    /// sequences the model tables range over (loop bound of the model: 0..SEQS); compile-time so that
    /// the harness' unwind bound can follow it
    pub const SEQS: u64 = match option_env!("VERIF_C05_SEQS") {
        Some(s) => (s.as_bytes()[0] - b'0') as u64,
        None => 8,
    };
    /// model of the server database as far as these statements see it, for one actor:
    /// __corro_buffered_changes rows of ONE version (`rows`: which seqs have a row),
    /// __corro_seq_bookkeeping of that version (`have`: recorded seqs, stored as maximal runs,
    /// with `last_seq` / `ts`), __corro_bookkeeping_gaps (`gaps`: versions inside a gap range).
    /// The meaning given to each statement here is tied to its text by E2 (e2_*.json) + sql_pins.
    pub struct Db {
        pub actor: ActorId,
        pub version: u64,
        pub rows: u32,
        pub sizes: [usize; 8],
        pub have: u32,
        pub last_seq: u64,
        pub ts: u64,
        pub gaps: u32,
    }
    static SQL: SqlTable<4> = SqlTable::new([SQL_BUFFERED_RANGE, SQL_INGAPS_BUFFERED, SQL_SEQ_ALL, SQL_BUFFERED_RANGE_FULL]);
    impl Db {
        fn buffered_between(&self, a: u64, b: u64) -> RowSet {
            // WHERE ... seq BETWEEN a AND b ORDER BY seq ASC
            let mut out = RowSet::empty();
            let mut s = 0u64;
            while s < SEQS {
                if self.rows & (1 << s) != 0 && a <= s && s <= b {
                    out.push(&[Val::U64(s), Val::U64(self.sizes[s as usize] as u64), Val::U64(s)]);
                }
                s += 1;
            }
            out
        }
    }
    impl Backend for Db {
        fn execute(&mut self, _sql: &'static str, _p: &ParamList) -> rusqlite::Result<usize> {
            panic!("VENV-SQL: no write statement expected");
        }
        fn query(&mut self, sql: &'static str, p: &ParamList) -> rusqlite::Result<RowSet> {
            let u = |v: Val| match v {
                Val::U64(x) => x,
                _ => panic!("VENV-SQL: integer parameter expected"),
            };
            assert!(u(p.named(pid!(":actor_id"))) == self.actor.0 as u64, "VENV-SQL: other actor");
            match SQL.classify(sql) {
                0 => {
                    assert!(u(p.named(pid!(":version"))) == self.version, "VENV-SQL: other version");
                    Ok(self.buffered_between(u(p.named(pid!(":start_seq"))), u(p.named(pid!(":end_seq")))))
                }
                1 => {
                    // EXISTS(gap row covering :version), EXISTS(buffered row of :version)
                    let v = u(p.named(pid!(":version")));
                    let in_gaps = v < 32 && self.gaps & (1 << v) != 0;
                    let buffered = v == self.version && self.rows != 0;
                    let mut out = RowSet::empty();
                    out.push(&[Val::U64(in_gaps as u64), Val::U64(buffered as u64)]);
                    Ok(out)
                }
                2 => {
                    // every bookkept range of :db_version
                    let mut out = RowSet::empty();
                    if u(p.named(pid!(":db_version"))) == self.version {
                        let mut s = 0u64;
                        let mut run: Option<u64> = None;
                        while s < SEQS {
                            let on = self.have & (1 << s) != 0;
                            match (run, on) {
                                (None, true) => run = Some(s),
                                (Some(st), false) => {
                                    out.push(&[Val::U64(st), Val::U64(s - 1), Val::U64(self.last_seq), Val::U64(self.ts)]);
                                    run = None;
                                }
                                _ => {}
                            }
                            s += 1;
                        }
                        if let Some(st) = run {
                            out.push(&[Val::U64(st), Val::U64(SEQS - 1), Val::U64(self.last_seq), Val::U64(self.ts)]);
                        }
                    }
                    Ok(out)
                }
                3 => {
                    assert!(u(p.named(pid!(":db_version"))) == self.version, "VENV-SQL: other version");
                    Ok(self.buffered_between(u(p.named(pid!(":start_seq"))), u(p.named(pid!(":end_seq")))))
                }
                _ => panic!("VENV-SQL: statement not modelled"),
            }
        }
    }

