//! C08 — changeset chunks tile the sequence range exactly, whatever the size limit.
//! Sliced: `ChunkedChanges` (+ `new`, `set_max_buf_size`, `Iterator::next`), `chunk_range`.
#![allow(unused_imports, dead_code, unused_variables, unused_mut)]
#![feature(step_trait)]

pub mod host {
    use std::{iter::Peekable, ops::RangeInclusive};
    use std::ops::{Add, Sub};
    use venv::rangemap::StepLite;
    use venv::{assert_always, debug, json, trace, warn};
    // heap-free stand-ins shadow the prelude's Vec / vec!
    use venv::avec as vec;
    use venv::collections::Vec;
    pub mod rusqlite {
        pub use venv::sqlite::{Error, Result};
    }
    use std::time::Duration;
    use venv::chan::Sender;
    use venv::eyre;
    use venv::time::Instant;
    use venv::{error};

    #[derive(Debug, Default, Clone, Copy, Eq, PartialEq, Ord, PartialOrd, Hash)]
    pub struct ActorId(pub u8);
    #[derive(Debug, Default, Clone, Copy, Eq, PartialEq, Ord, PartialOrd, Hash)]
    pub struct Timestamp(pub u64);
    /// mirrors of the two wrapper enums `send_change_chunks` constructs (only the variant it uses)
    #[derive(Debug, Clone, PartialEq)]
    pub enum SyncMessage {
        V1(SyncMessageV1),
    }
    #[derive(Debug, Clone, PartialEq)]
    pub enum SyncMessageV1 {
        Changeset(ChangeV1),
    }

    /// ABSTRACTION: the chunker reads only `seq` and `estimated_byte_size()` of a change.
    #[derive(Clone, Copy, Debug, PartialEq, Eq)]
    pub struct Change {
        pub seq: CrsqlSeq,
        pub size: usize,
        pub tag: u8,
    }
    impl Change {
        pub fn estimated_byte_size(&self) -> usize {
            self.size
        }
    }

    include!("sliced/base.rs");
    include!("sliced/change.rs");
    include!("sliced/broadcast.rs");
    include!("sliced/peer.rs");

    // harnesses live in a child module so that they can reach private sliced items
    #[cfg(kani)]
    mod proofs {
        use super::*;
        include!("proofs.rs");
    }
}
