
/// number of input rows (bound of the claim; overridable per tier through VERIF_C08_ROWS)
const ROWS: usize = venv_rows();
const fn venv_rows() -> usize {
    match option_env!("VERIF_C08_ROWS") {
        Some(s) => (s.as_bytes()[0] - b'0') as usize,
        None => 4,
    }
}

/// array-backed input iterator standing in for `rusqlite::Rows` mapped through `row_to_change`
pub struct Rows {
    items: [Option<rusqlite::Result<Change>>; ROWS],
    next: usize,
    len: usize,
}
impl Iterator for Rows {
    type Item = rusqlite::Result<Change>;
    fn next(&mut self) -> Option<Self::Item> {
        if self.next < self.len {
            let r = self.items[self.next].take();
            self.next += 1;
            r
        } else {
            None
        }
    }
}

/// arbitrary ordered change list inside [start,last]: strictly increasing seqs, holes allowed,
/// may be empty, may end before `last`; arbitrary estimated sizes
fn any_rows(start: u64, last: u64, err_at: Option<usize>) -> (Rows, [u64; ROWS], usize) {
    let len: usize = kani::any();
    kani::assume(len <= ROWS);
    let mut seqs = [0u64; ROWS];
    let mut items: [Option<rusqlite::Result<Change>>; ROWS] = [None; ROWS];
    let mut prev: Option<u64> = None;
    let mut i = 0;
    while i < ROWS {
        if i < len {
            let s: u64 = kani::any();
            kani::assume(s >= start && s <= last);
            if let Some(p) = prev {
                kani::assume(s > p);
            }
            prev = Some(s);
            seqs[i] = s;
            let size: usize = kani::any();
            // ABSTRACTION bound: Σ sizes must not overflow usize (real sizes are message sizes)
            kani::assume(size <= usize::MAX / (ROWS + 1));
            items[i] = Some(if err_at == Some(i) {
                Err(rusqlite::Error::Other(0))
            } else {
                Ok(Change { seq: CrsqlSeq(s), size, tag: i as u8 })
            });
        }
        i += 1;
    }
    (Rows { items, next: 0, len }, seqs, len)
}

/// C08-H1: chunks tile [start,last] exactly; each change in exactly one chunk, inside its range,
/// order preserved; size limit arbitrary and re-chosen arbitrarily between `next()` calls.
#[kani::proof]
#[kani::unwind(7)]
fn c08_chunks_tile_exactly() {
    let start: u64 = kani::any();
    let last: u64 = kani::any();
    kani::assume(start <= last);
    let (rows, seqs, len) = any_rows(start, last, None);
    let max0: usize = kani::any();
    let mut chunker = ChunkedChanges::new(rows, CrsqlSeq(start), CrsqlSeq(last), max0);

    let mut expect_start = start; // where the next chunk must begin
    let mut delivered = 0usize; // number of input changes delivered so far, in order
    let mut finished = false;
    let mut chunks = 0usize;
    let mut k = 0;
    while k < ROWS + 2 {
        let m: usize = kani::any();
        chunker.set_max_buf_size(m);
        match chunker.next() {
            None => {
                break;
            }
            Some(Err(_)) => {
                assert!(false, "no error row was injected");
            }
            Some(Ok((changes, range))) => {
                assert!(!finished, "a chunk after the chunk that ended at last_seq");
                chunks += 1;
                let (rs, re) = (range.start().0, range.end().0);
                // contiguous, non-overlapping, starting at the requested first sequence
                assert!(rs == expect_start);
                assert!(rs <= re);
                assert!(re <= last);
                // every change inside its chunk's range, in input order, none skipped or repeated
                let mut j = 0;
                while j < changes.len() {
                    assert!(delivered < len);
                    let c = &changes[j];
                    assert!(c.tag as usize == delivered && c.seq.0 == seqs[delivered]);
                    assert!(c.seq.0 >= rs && c.seq.0 <= re);
                    delivered += 1;
                    j += 1;
                }
                if re == last {
                    finished = true;
                } else {
                    expect_start = re + 1;
                }
                core::mem::forget(changes);
            }
        }
        k += 1;
    }
    // the iterator terminated, the last range ended at `last`, everything was delivered
    assert!(k < ROWS + 2);
    assert!(finished);
    assert!(delivered == len);
    kani::cover!(chunks >= 3, "three or more chunks");
    kani::cover!(chunks == 1 && len == 0, "empty input, single covering chunk");
    kani::cover!(len >= 2 && chunks == 1, "several rows in one chunk");
    kani::cover!(len >= 1 && seqs[len - 1] < last && chunks >= 2, "input ends before last, multi-chunk");
    core::mem::forget(chunker);
}

/// C08-H1 (inductive step): from ANY mid-stream chunker state satisfying the stream invariant
/// (nothing buffered, next chunk starts at `cur`, every remaining row has a strictly increasing
/// seq in [cur,last]) one `next()` call yields a chunk that starts at `cur`, holds a prefix of the
/// remaining rows (in order, each inside the chunk's range) and either ends the stream exactly at
/// `last` with every row delivered, or re-establishes the invariant with `cur' = range.end + 1`.
/// Together with `ChunkedChanges::new` establishing the invariant (checked here too), this covers
/// streams with any number of chunks; the bound is ROWS rows consumed per `next()` call.
#[kani::proof]
#[kani::unwind(7)]
fn c08_chunk_step_inductive() {
    let start: u64 = kani::any();
    let last: u64 = kani::any();
    let cur: u64 = kani::any();
    kani::assume(start <= cur && cur <= last);
    let (rows, seqs, len) = any_rows(cur, last, None);
    let mut chunker = if kani::any() {
        // base case: a fresh chunker is in the invariant state with cur = start
        kani::assume(cur == start);
        ChunkedChanges::new(rows, CrsqlSeq(start), CrsqlSeq(last), kani::any())
    } else {
        ChunkedChanges {
            iter: rows.peekable(),
            changes: Vec::new(),
            last_pushed_seq: CrsqlSeq(kani::any()),
            last_start_seq: CrsqlSeq(cur),
            last_seq: CrsqlSeq(last),
            max_buf_size: kani::any(),
            buffered_size: kani::any(),
            done: false,
        }
    };
    if kani::any() {
        // the previous call may have peeked at the next row
        let _ = chunker.iter.peek();
    }
    let m: usize = kani::any();
    chunker.set_max_buf_size(m);
    match chunker.next() {
        None => {
            assert!(false, "stream ended without covering up to last");
        }
        Some(Err(_)) => {
            assert!(false, "no error row was injected");
        }
        Some(Ok((changes, range))) => {
            let (rs, re) = (range.start().0, range.end().0);
            assert!(rs == cur && rs <= re && re <= last);
            let n = changes.len();
            assert!(n <= len);
            let mut j = 0;
            while j < n {
                let c = &changes[j];
                assert!(c.tag as usize == j && c.seq.0 == seqs[j]);
                assert!(c.seq.0 >= rs && c.seq.0 <= re);
                j += 1;
            }
            if chunker.done {
                assert!(re == last);
                assert!(n == len, "stream finished with undelivered rows");
                assert!(chunker.next().is_none());
            } else {
                // invariant re-established for the rest of the stream
                assert!(re < last);
                assert!(chunker.last_start_seq.0 == re + 1);
                assert!(chunker.last_seq.0 == last);
                assert!(chunker.changes.is_empty());
                assert!(n >= 1 && n < len, "a non-final chunk holds at least one row and leaves one");
                assert!(seqs[n] > re, "remaining rows lie after the emitted range");
                // the remaining rows are exactly the undelivered suffix, next one is row n
                match chunker.iter.peek() {
                    Some(Ok(c)) => { assert!(c.tag as usize == n) }
                    _ => { assert!(false) }
                }
            }
            kani::cover!(!chunker.done && n >= 2, "non-final chunk with several rows");
            kani::cover!(chunker.done && n == 0, "final empty chunk");
            kani::cover!(chunker.done && n >= 1 && seqs[n - 1] < last, "rows end before last");
            kani::cover!(chunker.done && n >= 1 && seqs[n - 1] == last, "row hits last_seq");
            core::mem::forget(changes);
        }
    }
    core::mem::forget(chunker);
}

/// C08-H1b: an error row ends the stream; ranges produced before it are still contiguous from
/// `start` and never reach past the last row actually seen.
#[kani::proof]
#[kani::unwind(7)]
fn c08_error_row_never_covers_unseen() {
    let start: u64 = kani::any();
    let last: u64 = kani::any();
    kani::assume(start <= last);
    let err_at: usize = kani::any();
    kani::assume(err_at < ROWS);
    let (rows, seqs, len) = any_rows(start, last, Some(err_at));
    kani::assume(err_at < len);
    let max0: usize = kani::any();
    let mut chunker = ChunkedChanges::new(rows, CrsqlSeq(start), CrsqlSeq(last), max0);
    let mut expect_start = start;
    let mut delivered = 0usize;
    let mut saw_err = false;
    let mut k = 0;
    while k < ROWS + 2 {
        match chunker.next() {
            None => break,
            Some(Err(_)) => {
                saw_err = true;
                break;
            }
            Some(Ok((changes, range))) => {
                let (rs, re) = (range.start().0, range.end().0);
                assert!(rs == expect_start && rs <= re);
                // a chunk emitted before the error covers only sequences up to the last row read
                assert!(re < seqs[err_at]);
                delivered += changes.len();
                assert!(delivered <= err_at);
                expect_start = re + 1;
                core::mem::forget(changes);
            }
        }
        k += 1;
    }
    assert!(saw_err, "the injected error must surface");
    kani::cover!(saw_err && delivered > 0, "chunk delivered before the error");
    core::mem::forget(chunker);
}

/// C08-H3: `send_change_chunks` — what actually goes on the wire for one version request.  The
/// clock is symbolic (every `elapsed()` returns an arbitrary duration), so the size limit is
/// halved at arbitrary points.  If the function returns Ok, the changesets sent tile
/// [start,last] exactly, each change is in exactly one of them and inside its range; the only
/// exception is the documented one: a request for the WHOLE version that has no rows sends
/// nothing (the caller then declares the version empty).
#[kani::proof]
#[kani::unwind(7)]
fn c08_send_change_chunks_tiles_on_the_wire() {
    let start: u64 = kani::any();
    let last: u64 = kani::any();
    let version_last: u64 = kani::any();
    kani::assume(start <= last && last <= version_last);
    let (rows, seqs, len) = any_rows(start, last, None);
    let max0: usize = kani::any();
    let chunked = ChunkedChanges::new(rows, CrsqlSeq(start), CrsqlSeq(last), max0);
    let sender: Sender<SyncMessage> = Sender::new(false);
    let res = send_change_chunks(&sender, chunked, ActorId(2), CrsqlDbVersion(7), CrsqlSeq(version_last), Timestamp(1));
    if res.is_ok() {
        let n = sender.sent();
        let log = sender.log.borrow();
        if n == 0 {
            assert!(len == 0 && start == 0 && last == version_last, "C08: nothing was sent for a request that is not an empty whole version");
        } else {
            let mut expect_start = start;
            let mut reached_last = false;
            let mut delivered = 0usize;
            let mut k = 0;
            while k < n {
                assert!(!reached_last, "C08: a changeset was sent after the one ending at the requested last sequence");
                match &log[k] {
                    Some(SyncMessage::V1(SyncMessageV1::Changeset(ChangeV1 { changeset: Changeset::Full { changes, seqs: r, last_seq, version, .. }, .. }))) => {
                        assert!(last_seq.0 == version_last && version.0 == 7);
                        let (rs, re) = (r.start().0, r.end().0);
                        assert!(rs == expect_start && rs <= re && re <= last, "C08: sent ranges are not contiguous from the requested start");
                        let mut j = 0;
                        while j < changes.len() {
                            assert!(delivered < len);
                            let c = &changes[j];
                            assert!(c.tag as usize == delivered && c.seq.0 >= rs && c.seq.0 <= re, "C08: change outside its changeset's range or out of order");
                            delivered += 1;
                            j += 1;
                        }
                        if re == last {
                            reached_last = true;
                        } else {
                            expect_start = re + 1;
                        }
                    }
                    _ => {
                        assert!(false, "C08: unexpected message kind")
                    }
                }
                k += 1;
            }
            assert!(reached_last, "C08: sent changesets stop short of the requested last sequence");
            assert!(delivered == len, "C08: a change was not sent");
        }
    }
    kani::cover!(res.is_ok() && sender.sent() >= 2, "several changesets sent");
    kani::cover!(res.is_ok() && sender.sent() == 1 && len == 0, "empty partial request answered with an empty changeset");
    kani::cover!(res.is_err(), "slow peer: gave up");
    core::mem::forget(sender);
}

/// C08-H2: `chunk_range(r, c)` — the union of the pieces is exactly `r`, every piece inside `r`,
/// pieces ascending; T = u64 (the repository instantiates it with a transparent u64 newtype
/// whose `Step` impl delegates to u64's).
fn chunk_range_union(max_len: u64, c: usize) {
    let s: u64 = kani::any();
    let len: u64 = kani::any();
    kani::assume(len <= max_len);
    // stated bound: the range ends at least chunk_size below u64::MAX (see DESIGN §7.8)
    kani::assume(s <= u64::MAX - max_len - c as u64 - 1);
    let e = s + len;
    let mut covered_to: Option<u64> = None; // highest value covered so far (pieces must leave no hole)
    let mut n = 0u64;
    for piece in chunk_range(s..=e, c) {
        let (ps, pe) = piece.into_inner();
        assert!(ps <= pe);
        assert!(ps >= s && pe <= e);
        match covered_to {
            None => { assert!(ps == s) }
            Some(h) => { assert!(ps <= h + 1 && pe >= h) }
        }
        covered_to = Some(pe);
        n += 1;
    }
    assert!(covered_to == Some(e));
    kani::cover!(n >= 3, "three or more pieces");
    kani::cover!(n == 1, "single piece");
}

#[kani::proof]
#[kani::unwind(14)]
fn c08_chunk_range_union_c1() {
    // chunk size is concrete: `step_by` divides by it, and a symbolic divisor does not terminate in CBMC
    chunk_range_union(5, 1);
}

#[kani::proof]
#[kani::unwind(14)]
fn c08_chunk_range_union_c2() {
    // chunk size is concrete: `step_by` divides by it, and a symbolic divisor does not terminate in CBMC
    chunk_range_union(9, 2);
}

#[kani::proof]
#[kani::unwind(14)]
fn c08_chunk_range_union_c3() {
    // chunk size is concrete: `step_by` divides by it, and a symbolic divisor does not terminate in CBMC
    chunk_range_union(12, 3);
}

#[kani::proof]
#[kani::unwind(14)]
fn c08_chunk_range_union_c4() {
    // chunk size is concrete: `step_by` divides by it, and a symbolic divisor does not terminate in CBMC
    chunk_range_union(12, 4);
}

#[kani::proof]
#[kani::unwind(27)]
fn c08_chunk_range_union_callsite() {
    // the real call site uses chunk size 10
    chunk_range_union(25, 10);
}
