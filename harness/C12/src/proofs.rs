/// For every sequence of up to 5 stream events (end-of-query with an optional change id, or a
/// change with an arbitrary id) the client accepts a change ⟺ it is the first id after an
/// end-of-query without id, or exactly last+1; every other id (gap, duplicate, regression) is
/// reported as MissedChange{expected: last+1, got}; the resume point is always the last id
/// delivered.
#[kani::proof]
#[kani::unwind(7)]
fn c12_client_reports_every_gap_and_duplicate() {
    let mut s: SubscriptionStream<u8> = SubscriptionStream { observed_eoq: false, last_change_id: None, _deser: core::marker::PhantomData };
    let mut model_last: Option<u64> = None; // last id delivered to the application (or snapshot id)
    let mut k = 0;
    while k < 5 {
        if kani::any() {
            let id: Option<u64> = if kani::any() { Some(kani::any()) } else { None };
            s.handle_eoq(id.map(ChangeId));
            model_last = id;
            assert!(s.observed_eoq);
        } else {
            let id: u64 = kani::any();
            // ids are produced by incrementing from 1: u64::MAX is never reached
            kani::assume(model_last.map(|l| l < u64::MAX).unwrap_or(true));
            let r = s.handle_change(ChangeId(id));
            match model_last {
                Some(l) if id != l + 1 => {
                    assert!(r == Err(SubscriptionError::MissedChange { expected: ChangeId(l + 1), got: ChangeId(id) }), "C12: a gap / duplicate / regression in change ids was not reported");
                    // nothing was delivered: the resume point is unchanged
                    assert!(s.last_change_id == Some(ChangeId(l)), "C12: resume point moved past a gap");
                }
                _ => {
                    assert!(r.is_ok(), "C12: a contiguous change was rejected");
                    model_last = Some(id);
                }
            }
        }
        assert!(s.last_change_id == model_last.map(ChangeId), "C12: resume point is not the last delivered change id");
        k += 1;
    }
    kani::cover!(model_last.is_some(), "some change delivered");
}
