/// For every sequence of up to 5 stream events (end-of-query with an optional change id, or a
/// change with an arbitrary id) the client accepts a change ⟺ it is the first id after an
/// end-of-query without id, or exactly last+1; every other id (gap, duplicate, regression) is
/// reported as MissedChange{expected: last+1, got}; the resume point is always the last id
/// delivered.
#[kani::proof]
#[kani::unwind(7)]
fn c12_client_reports_every_gap_and_duplicate() {
    let mut s: SubscriptionStream<u8> = SubscriptionStream { observed_eoq: false, last_change_id: None, _deser: core::marker::PhantomData };
    let mut model_last: Option<u64> = None; // last id delivered to the application (or snapshot id)
    let mut k = 0;
    while k < 5 {
        if kani::any() {
            let id: Option<u64> = if kani::any() { Some(kani::any()) } else { None };
            s.handle_eoq(id.map(ChangeId));
            model_last = id;
            assert!(s.observed_eoq);
        } else {
            let id: u64 = kani::any();
            // ids are produced by incrementing from 1: u64::MAX is never reached
            kani::assume(model_last.map(|l| l < u64::MAX).unwrap_or(true));
            let r = s.handle_change(ChangeId(id));
            match model_last {
                Some(l) if id != l + 1 => {
                    assert!(r == Err(SubscriptionError::MissedChange { expected: ChangeId(l + 1), got: ChangeId(id) }), "C12: a gap / duplicate / regression in change ids was not reported");
                    // nothing was delivered: the resume point is unchanged
                    assert!(s.last_change_id == Some(ChangeId(l)), "C12: resume point moved past a gap");
                }
                _ => {
                    assert!(r.is_ok(), "C12: a contiguous change was rejected");
                    model_last = Some(id);
                }
            }
        }
        assert!(s.last_change_id == model_last.map(ChangeId), "C12: resume point is not the last delivered change id");
        k += 1;
    }
    kani::cover!(model_last.is_some(), "some change delivered");
}

/// Server side, after the snapshot / resume read returned change id L: whatever the live queue
/// holds (0..=2 consecutive ids from any start >= 1), whatever id the matcher last broadcast
/// (S >= the queued ids), and however far each of the up-to-5 further catch-up reads gets —
/// if the block ends without an error event, the subscriber has received exactly L+1, L+2, …, F
/// in order, no duplicate and no gap, and F covers everything that was broadcast before the
/// hand-over (F >= S).  Otherwise an error event ended the stream.
#[kani::proof]
#[kani::unwind(7)]
fn c12_server_reconcile_is_contiguous_or_errors() {
    use server::*;
    let l: u64 = kani::any();
    kani::assume(l <= 20);
    let qlen: usize = kani::any();
    kani::assume(qlen <= 2);
    let qfirst: u64 = kani::any();
    kani::assume(qfirst >= 1 && qfirst <= 24);
    let last_sent: u64 = kani::any();
    // the matcher's "last id sent" is at least as new as anything queued, and ids are dense:
    // what was broadcast before we subscribed (<= qfirst-1) and what the snapshot saw overlap or touch
    kani::assume(last_sent <= 26);
    kani::assume(qlen == 0 || last_sent >= qfirst + qlen as u64 - 1);
    let reads: [u8; 5] = kani::any();
    let read_fails: [u8; 5] = kani::any();
    let mut i = 0;
    while i < 5 {
        kani::assume(reads[i] <= 2 && read_fails[i] <= 2);
        i += 1;
    }
    let matcher = MatcherHandle { last_sent: ChangeId(last_sent), reads, read_fails, n_reads: core::cell::Cell::new(0) };
    let evt = EvtTx { next_expected: core::cell::Cell::new(l + 1), broken: core::cell::Cell::new(false), errors: core::cell::Cell::new(0), changes: core::cell::Cell::new(0), closed: kani::any() };
    let queue = QueueRx { first: qfirst, len: qlen, taken: 0, disconnected: kani::any() };
    let f = venv::task::block_on(reconcile_after_snapshot(&matcher, ChangeId(l), queue, &evt, BytesMut, CancellationToken));
    assert!(!evt.broken.get(), "C12: the subscriber was sent a change id that is not the successor of the previous one (gap, duplicate or event after an error)");
    if evt.errors.get() == 0 && !evt.closed {
        // no error event: either everything is consistent, or a read failed with a send error
        let send_failed = {
            let mut any = false;
            let mut k = 0;
            while k < 5 {
                if k < matcher.n_reads.get() && read_fails[k] == 1 {
                    any = true;
                }
                k += 1;
            }
            any
        };
        if !send_failed {
            assert!(f.0 + 1 == evt.next_expected.get(), "C12: resume point is not the last id delivered");
            if qlen == 0 {
                // nothing buffered: whatever the matcher broadcast before we subscribed can only come
                // from the database, so the read must have reached it (later events are still in
                // the broadcast receiver and are forwarded after the hand-over)
                assert!(f.0 >= last_sent || last_sent <= l, "C12: the stream continues although changes broadcast before the subscriber attached were never delivered");
            }
            if qlen > 0 {
                assert!(f.0 >= qfirst + qlen as u64 - 1, "C12: a buffered live event was neither delivered nor covered by the catch-up read");
            }
        }
    }
    kani::cover!(evt.errors.get() == 0 && evt.changes.get() >= 2, "several changes delivered");
    kani::cover!(evt.errors.get() == 1, "gave up with an error event");
}

/// live forwarding after the hand-over: when the broadcast receiver reports that the subscriber
/// fell behind (events were skipped) or that the channel closed, nothing more is forwarded — the
/// stream stops instead of continuing past the gap; a received event is forwarded unchanged
#[kani::proof]
#[kani::unwind(4)]
fn c12_forwarder_stops_when_events_were_skipped() {
    use server::*;
    let matcher = MatcherHandle { last_sent: ChangeId(0), reads: [0; 5], read_fails: [0; 5], n_reads: core::cell::Cell::new(0) };
    let which: u8 = kani::any();
    kani::assume(which < 3);
    let id: u64 = kani::any();
    let skipped: u64 = kani::any();
    let res = match which {
        0 => Ok((Bytes, QueryEventMeta::Change(ChangeId(id)))),
        1 => Err(RecvError::Lagged(skipped)),
        _ => Err(RecvError::Closed),
    };
    let out = forward_on_recv(res, &matcher);
    match which {
        0 => {
            assert!(matches!(out, venv::ArmOutcome::Value((_, QueryEventMeta::Change(ChangeId(x)))) if x == id), "C12: a live event was not forwarded unchanged")
        }
        _ => {
            assert!(matches!(out, venv::ArmOutcome::Return), "C12: the live stream continues after the subscriber missed events (or after the channel closed) instead of ending")
        }
    }
}
