//! C12 (client part) — the client library reports any gap it observes and resumes from the last
//! change id it delivered.  Sliced: SubscriptionStream::{handle_eoq, handle_change}, ChangeId.
#![allow(unused_imports, dead_code, unused_variables, unused_mut, clippy::all)]

pub mod host {
    /// mirror of the two fields the sliced methods touch
    pub struct SubscriptionStream<T> {
        pub observed_eoq: bool,
        pub last_change_id: Option<ChangeId>,
        pub _deser: core::marker::PhantomData<T>,
    }
    pub trait DeserializeOwned {}
    impl<T> DeserializeOwned for T {}
    #[derive(Debug, PartialEq)]
    pub enum SubscriptionError {
        MissedChange { expected: ChangeId, got: ChangeId },
    }

    include!("sliced/api.rs");
    include!("sliced/sub.rs");

    #[cfg(kani)]
    mod proofs {
        use super::*;
        include!("proofs.rs");
    }
}
