//! C12 (client part) — the client library reports any gap it observes and resumes from the last
//! change id it delivered.  Sliced: SubscriptionStream::{handle_eoq, handle_change}, ChangeId.
#![allow(unused_imports, dead_code, unused_variables, unused_mut, clippy::all)]

pub mod host {
    /// mirror of the two fields the sliced methods touch
    pub struct SubscriptionStream<T> {
        pub observed_eoq: bool,
        pub last_change_id: Option<ChangeId>,
        pub _deser: core::marker::PhantomData<T>,
    }
    pub trait DeserializeOwned {}
    impl<T> DeserializeOwned for T {}
    #[derive(Debug, PartialEq)]
    pub enum SubscriptionError {
        MissedChange { expected: ChangeId, got: ChangeId },
    }

    include!("sliced/api.rs");
    include!("sliced/sub.rs");

    /// server side: the reconciliation block of catch_up_sub, hosted with the outcome of every
    /// race as an explicit input (what the snapshot read returned, what is in the live queue, what
    /// the matcher says it last sent, what each further catch-up read returns)
    pub mod server {
        use super::ChangeId;
        use core::cell::Cell;
        use std::time::Duration;
        use venv::{debug, info, warn, ArmOutcome};

        #[derive(Clone, Copy, Debug)]
        pub struct Bytes;
        pub struct BytesMut;
        #[derive(Clone, Copy, Debug, PartialEq)]
        pub enum QueryEventMeta {
            Change(ChangeId),
            Error,
        }
        /// the subscriber's channel: checks continuity online instead of logging
        pub struct EvtTx {
            pub next_expected: Cell<u64>,
            pub broken: Cell<bool>,
            pub errors: Cell<usize>,
            pub changes: Cell<usize>,
            pub closed: bool,
        }
        impl EvtTx {
            pub async fn send(&self, ev: (Bytes, QueryEventMeta)) -> Result<(), ()> {
                if self.closed {
                    return Err(());
                }
                match ev.1 {
                    QueryEventMeta::Change(id) => {
                        if self.errors.get() > 0 || id.0 != self.next_expected.get() {
                            self.broken.set(true);
                        }
                        self.next_expected.set(id.0.wrapping_add(1));
                        self.changes.set(self.changes.get() + 1);
                    }
                    QueryEventMeta::Error => self.errors.set(self.errors.get() + 1),
                }
                Ok(())
            }
        }
        pub fn error_to_query_event_bytes_with_meta<E>(_buf: &mut BytesMut, _e: E) -> (Bytes, QueryEventMeta) {
            (Bytes, QueryEventMeta::Error)
        }
        #[derive(Debug)]
        pub enum CatchUpError {
            Send(()),
            Other,
        }
        pub enum TryRecvError {
            Empty,
            Disconnected,
        }
        /// the live queue filled by the buffering task: consecutive ids, possibly disconnected
        pub struct QueueRx {
            pub first: u64,
            pub len: usize,
            pub taken: usize,
            pub disconnected: bool,
        }
        impl QueueRx {
            pub fn try_recv(&mut self) -> Result<(Bytes, ChangeId), TryRecvError> {
                if self.taken < self.len {
                    let id = self.first + self.taken as u64;
                    self.taken += 1;
                    Ok((Bytes, ChangeId(id)))
                } else if self.disconnected {
                    Err(TryRecvError::Disconnected)
                } else {
                    Err(TryRecvError::Empty)
                }
            }
            pub async fn recv(&mut self) -> Option<(Bytes, ChangeId)> {
                if self.taken < self.len {
                    let id = self.first + self.taken as u64;
                    self.taken += 1;
                    Some((Bytes, ChangeId(id)))
                } else {
                    None
                }
            }
        }
        pub struct MatcherHandle {
            pub last_sent: ChangeId,
            /// outcomes of the successive catch-up reads: how far each one gets beyond `from`
            pub reads: [u8; 5],
            pub read_fails: [u8; 5], // 0 ok, 1 send error, 2 other error
            pub n_reads: Cell<usize>,
        }
        impl MatcherHandle {
            pub fn id(&self) -> u8 {
                0
            }
            pub fn last_change_id_sent(&self) -> ChangeId {
                self.last_sent
            }
        }
        /// changes_since(from): streams the changes (from, y] to the subscriber and returns y
        pub async fn catch_up_sub_from(matcher: &MatcherHandle, from: ChangeId, evt_tx: &EvtTx) -> Result<ChangeId, CatchUpError> {
            let k = matcher.n_reads.get();
            assert!(k < 5, "more catch-up reads than attempts");
            matcher.n_reads.set(k + 1);
            match matcher.read_fails[k] {
                1 => return Err(CatchUpError::Send(())),
                2 => return Err(CatchUpError::Other),
                _ => {}
            }
            let mut id = from.0;
            let mut i = 0;
            while i < matcher.reads[k] {
                id += 1;
                if evt_tx.send((Bytes, QueryEventMeta::Change(ChangeId(id)))).await.is_err() {
                    return Err(CatchUpError::Send(()));
                }
                i += 1;
            }
            Ok(ChangeId(id))
        }
        /// tokio::sync::broadcast::error::RecvError
        #[derive(Debug, Clone, Copy, PartialEq)]
        pub enum RecvError {
            Closed,
            Lagged(u64),
        }
        pub struct CancellationToken;
        impl CancellationToken {
            pub fn cancel(&self) {}
        }
        pub mod tokio {
            pub mod time {
                pub async fn sleep(_d: std::time::Duration) {}
            }
        }
        include!("sliced/pubsub.rs");
    }

    #[cfg(kani)]
    mod proofs {
        use super::*;
        include!("proofs.rs");
    }
}
