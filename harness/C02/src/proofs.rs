// Bounds: versions 1..=N, sequences 0..=M, <= 2 partial versions, container capacity CAP (env).
const N: u64 = env_num(option_env!("VERIF_C02_N"), 4);
const M: u64 = env_num(option_env!("VERIF_C02_M"), 3);
const fn env_num(s: Option<&str>, d: u64) -> u64 {
    match s {
        Some(s) => (s.as_bytes()[0] - b'0') as u64,
        None => d,
    }
}
const ACTOR: ActorId = ActorId(7);

fn bits(lo: u64, hi: u64) -> u32 {
    // {lo..=hi} as a bitmask (empty when lo > hi); values < 32
    if lo > hi {
        0
    } else {
        (((1u64 << (hi + 1)) - 1) & !((1u64 << lo) - 1)) as u32
    }
}

/// ranges (ascending maximal runs) of a version bitmask, inserted into a fresh set
fn set_of_mask<T: Ord + Clone + StepLite>(mask: u32, lo: u64, hi: u64, mk: fn(u64) -> T) -> RangeInclusiveSet<T> {
    let mut s = RangeInclusiveSet::new();
    let mut v = lo;
    let mut run: Option<u64> = None;
    while v <= hi + 1 {
        let on = v <= hi && mask & (1 << v) != 0;
        match (run, on) {
            (None, true) => run = Some(v),
            (Some(st), false) => {
                s.insert(mk(st)..=mk(v - 1));
                run = None;
            }
            _ => {}
        }
        v += 1;
    }
    s
}

/// mask of a stored set; asserts the representation invariant: ascending, pairwise disjoint,
/// NON-ADJACENT, start <= end, inside lo..=hi
fn mask_of_versions(s: &RangeInclusiveSet<CrsqlDbVersion>, hi: u64) -> u32 {
    let mut m = 0u32;
    let mut prev_end: Option<u64> = None;
    for r in s.iter() {
        let (a, b) = (r.start().0, r.end().0);
        assert!(a >= 1 && a <= b && b <= hi, "C02-INV: gap range outside 1..=head or reversed");
        if let Some(p) = prev_end {
            assert!(a > p + 1, "C02-INV: gap ranges overlap, touch or are out of order");
        }
        prev_end = Some(b);
        m |= bits(a, b);
    }
    m
}
fn mask_of_seqs(s: &RangeInclusiveSet<CrsqlSeq>) -> u32 {
    let mut m = 0u32;
    for r in s.iter() {
        assert!(r.start() <= r.end() && r.end().0 <= M);
        m |= bits(r.start().0, r.end().0);
    }
    m
}

#[derive(Clone, Copy)]
struct PartialSpec {
    version: u64,
    seq_mask: u32,
    last_seq: u64,
}

struct Pre {
    max: u64, // 0 = no version known yet
    need_mask: u32,
    partials: [Option<PartialSpec>; 2],
}

/// arbitrary bookkeeping state satisfying the representation invariant I:
///   needed ⊆ 1..max-1 … (max itself is held: it was the end of an applied range or a partial),
///   partial versions ∈ 1..=max, not needed, distinct; each partial: ∅ ≠ seqs ⊆ 0..=last_seq ≤ M
fn any_pre(max_partials: usize) -> Pre {
    any_pre_with_head(max_partials, None)
}
/// `head`: Some(h) fixes the pre-state's head (case split: one harness per head value keeps loop
/// bounds concrete for CBMC; the union of the cases is the full claim)
fn any_pre_with_head(max_partials: usize, head: Option<u64>) -> Pre {
    let max: u64 = match head {
        Some(h) => h,
        None => kani::any(),
    };
    kani::assume(max <= N);
    let need_mask: u32 = kani::any();
    kani::assume(need_mask & !bits(1, max) == 0);
    kani::assume(max == 0 || need_mask & (1 << max) == 0);
    let mut partials = [None; 2];
    let mut i = 0;
    while i < 2 {
        if i < max_partials && kani::any() {
            let version: u64 = kani::any();
            kani::assume(version >= 1 && version <= max);
            kani::assume(need_mask & (1 << version) == 0);
            let last_seq: u64 = kani::any();
            kani::assume(last_seq <= M);
            let seq_mask: u32 = kani::any();
            kani::assume(seq_mask != 0 && seq_mask & !bits(0, last_seq) == 0);
            if i == 1 {
                if let Some(p0) = partials[0] {
                    let p0: PartialSpec = p0;
                    kani::assume(p0.version < version);
                }
            }
            partials[i] = Some(PartialSpec { version, seq_mask, last_seq });
        }
        i += 1;
    }
    Pre { max, need_mask, partials }
}

fn build(pre: &Pre) -> (BookedVersions, Connection) {
    let mut bv = BookedVersions::new(ACTOR);
    bv.needed = set_of_mask(pre.need_mask, 1, N, CrsqlDbVersion);
    bv.max = if pre.max == 0 { None } else { Some(CrsqlDbVersion(pre.max)) };
    let mut db = Db::new(ACTOR);
    // persisted gaps = in-memory gaps (part of I)
    for r in bv.needed.iter() {
        db.gaps[db.gaps_len] = (r.start().0, r.end().0);
        db.gaps_len += 1;
    }
    let mut i = 0;
    while i < 2 {
        if let Some(p) = pre.partials[i] {
            bv.partials.insert(
                CrsqlDbVersion(p.version),
                PartialVersion { seqs: set_of_mask(p.seq_mask, 0, M, CrsqlSeq), last_seq: CrsqlSeq(p.last_seq), ts: Timestamp(0) },
            );
        }
        i += 1;
    }
    (bv, venv::sql::Conn::new(db))
}

fn db_gap_rows_equal_memory(bv: &BookedVersions, conn: &Connection) {
    let db = conn.db.borrow();
    assert!(db.gaps_len == bv.needed.len(), "C02-DB: number of persisted gap rows differs from memory");
    for r in bv.needed.iter() {
        let mut found = false;
        let mut i = 0;
        while i < DB_ROWS {
            if i < db.gaps_len && db.gaps[i] == (r.start().0, r.end().0) {
                found = true;
            }
            i += 1;
        }
        assert!(found, "C02-DB: in-memory gap range has no persisted row");
    }
}

// ---------------------------------------------------------------------------------------------
// H1 — inductive step of version insertion (insert_db + commit_snapshot)
// ---------------------------------------------------------------------------------------------
fn insert_step(two_ranges: bool, head: Option<u64>, partials: usize) {
    let pre = any_pre_with_head(partials, head);
    let (mut bv, conn) = build(&pre);

    let (a1, b1): (u64, u64) = (kani::any(), kani::any());
    kani::assume(1 <= a1 && a1 <= b1 && b1 <= N);
    let mut ins_mask = bits(a1, b1);
    let mut hi = b1;
    let mut set = RangeInclusiveSet::new();
    set.insert(CrsqlDbVersion(a1)..=CrsqlDbVersion(b1));
    if two_ranges {
        let (a2, b2): (u64, u64) = (kani::any(), kani::any());
        kani::assume(1 <= a2 && a2 <= b2 && b2 <= N);
        ins_mask |= bits(a2, b2);
        if b2 > hi {
            hi = b2;
        }
        set.insert(CrsqlDbVersion(a2)..=CrsqlDbVersion(b2));
    }

    let mut snap = bv.snapshot();
    let res = snap.insert_db(&conn, set);
    assert!(res.is_ok(), "C02-DB: insert_db failed (primary-key conflict on a gap row)");
    bv.commit_snapshot(snap);

    let new_max = if hi > pre.max { hi } else { pre.max };
    let expect = (pre.need_mask | bits(pre.max + 1, new_max)) & !ins_mask;
    assert!(bv.max == Some(CrsqlDbVersion(new_max)), "C02: head after insertion");
    let got = mask_of_versions(&bv.needed, new_max);
    assert!(got == expect, "C02: needed set after insertion is not (needed ∪ (head, head']) \\ inserted");
    db_gap_rows_equal_memory(&bv, &conn);
    {
        let db = conn.db.borrow();
        assert!(db.ineffective_deletes == 0, "C02-DB: a gap DELETE matched no persisted row");
        assert!(db.pk_conflicts == 0);
    }
    // partial records of versions that were not inside a removed gap survive the insertion
    // (partial versions are never inside a gap, so: all of them)
    if let Some(ps) = pre.partials[0] {
        match bv.partials.get(&CrsqlDbVersion(ps.version)) {
            Some(p) => {
                assert!(mask_of_seqs(&p.seqs) == ps.seq_mask && p.last_seq.0 == ps.last_seq, "C02: a partial record changed during version insertion")
            }
            None => {
                assert!(false, "C02: a partial record (received sequences of a partially held version) was dropped by a version insertion")
            }
        }
    }
    // an inserted version is now known; a version that stayed needed is not
    let v: u64 = kani::any();
    kani::assume(v >= 1 && v <= N);
    let known = bv.contains_version(&CrsqlDbVersion(v));
    assert!(known == (v <= new_max && expect & (1 << v) == 0), "C02: contains_version disagrees with the gap set");

    // vacuity witness (head-specific situations such as "gap split" exist only for larger heads)
    kani::cover!(got == expect && (pre.max < 2 || got != pre.need_mask || pre.need_mask == 0), "insertion step completed");
    core::mem::forget(bv);
}

macro_rules! insert_step_case {
    ($name:ident, $two:expr, $head:expr, $partials:expr) => {
        #[kani::proof]
        fn $name() {
            insert_step($two, Some($head), $partials);
        }
    };
}
insert_step_case!(c02_insert_one_range_head0, false, 0, 0);
insert_step_case!(c02_insert_one_range_head1, false, 1, 0);
insert_step_case!(c02_insert_one_range_head2, false, 2, 0);
insert_step_case!(c02_insert_one_range_head3, false, 3, 0);
insert_step_case!(c02_insert_one_range_head4, false, 4, 0);
insert_step_case!(c02_insert_one_range_head5, false, 5, 0);
insert_step_case!(c02_insert_one_range_head6, false, 6, 0);
insert_step_case!(c02_insert_two_ranges_head0, true, 0, 0);
insert_step_case!(c02_insert_two_ranges_head2, true, 2, 0);
insert_step_case!(c02_insert_two_ranges_head4, true, 4, 0);
insert_step_case!(c02_insert_two_ranges_head6, true, 6, 0);

/// booking a version that is partially received (the normal path: partial versions are booked as
/// known through insert_db) must not touch its record of received sequences.  Concrete shape
/// (head = the partial version, no gaps, the version itself inserted), symbolic sequence set.
fn insert_keeps_partial(head: u64) {
    let last_seq: u64 = kani::any();
    kani::assume(last_seq <= M);
    let seq_mask: u32 = kani::any();
    kani::assume(seq_mask != 0 && seq_mask & !bits(0, last_seq) == 0);
    let pre = Pre { max: head, need_mask: 0, partials: [Some(PartialSpec { version: head, seq_mask, last_seq }), None] };
    let (mut bv, conn) = build(&pre);
    let mut set = RangeInclusiveSet::new();
    set.insert(CrsqlDbVersion(head)..=CrsqlDbVersion(head));
    let mut snap = bv.snapshot();
    let res = snap.insert_db(&conn, set);
    assert!(res.is_ok());
    bv.commit_snapshot(snap);
    assert!(bv.max == Some(CrsqlDbVersion(head)) && bv.needed.is_empty());
    match bv.partials.get(&CrsqlDbVersion(head)) {
        Some(p) => {
            assert!(mask_of_seqs(&p.seqs) == seq_mask && p.last_seq.0 == last_seq, "C02: a partial record changed during version insertion")
        }
        None => {
            assert!(false, "C02: a partial record (received sequences of a partially held version) was dropped by a version insertion")
        }
    }
    kani::cover!(true, "insertion completed");
    core::mem::forget(bv);
}
#[kani::proof]
fn c02_insert_keeps_partial_head2() {
    insert_keeps_partial(2);
}
#[kani::proof]
fn c02_insert_keeps_partial_head4() {
    insert_keeps_partial(4);
}

// ---------------------------------------------------------------------------------------------
// H2 — the advertised state partitions 1..=head exactly
// ---------------------------------------------------------------------------------------------
macro_rules! advertised_case {
    ($name:ident, $head:expr, $partials:expr) => {
        #[kani::proof]
        fn $name() {
            advertised_state_partitions_versions($head, $partials);
        }
    };
}
advertised_case!(c02_advertised_partition_head0, Some(0), 1);
advertised_case!(c02_advertised_partition_head1, Some(1), 1);
advertised_case!(c02_advertised_partition_head2, Some(2), 1);
advertised_case!(c02_advertised_partition_head3, Some(3), 1);
advertised_case!(c02_advertised_partition_head4, Some(4), 1);
advertised_case!(c02_advertised_partition_two_partials_head3, Some(3), 2);
advertised_case!(c02_advertised_partition_two_partials_head5, Some(5), 2);
advertised_case!(c02_advertised_partition_head6, Some(6), 1);
fn advertised_state_partitions_versions(head: Option<u64>, partials: usize) {
    advertised_check(any_pre_with_head(partials, head));
}
// generate_sync_for_actor treats the gap set and the partial records in two independent passes:
// the quick tier checks them one at a time (gaps only / one partial, no gaps), the thorough tier
// together (the cases above)
#[kani::proof]
fn c02_advertised_gaps_only_head2() {
    advertised_check(any_pre_with_head(0, Some(2)));
}
#[kani::proof]
fn c02_advertised_gaps_only_head4() {
    advertised_check(any_pre_with_head(0, Some(4)));
}
fn advertised_one_partial_no_gaps(head: u64) {
    let version: u64 = kani::any();
    kani::assume(version >= 1 && version <= head);
    let last_seq: u64 = kani::any();
    kani::assume(last_seq <= M);
    let seq_mask: u32 = kani::any();
    kani::assume(seq_mask != 0 && seq_mask & !bits(0, last_seq) == 0);
    advertised_check(Pre { max: head, need_mask: 0, partials: [Some(PartialSpec { version, seq_mask, last_seq }), None] });
}
#[kani::proof]
fn c02_advertised_one_partial_no_gaps_head2() {
    advertised_one_partial_no_gaps(2);
}
#[kani::proof]
fn c02_advertised_one_partial_no_gaps_head4() {
    advertised_one_partial_no_gaps(4);
}
fn advertised_check(pre: Pre) {
    let (bv, _conn) = build(&pre);
    let mut state = SyncStateV1::default();
    generate_sync_for_actor(&mut state, ACTOR, &bv);

    if pre.max == 0 {
        assert!(state.heads.get(&ACTOR).is_none() && state.need.is_empty() && state.partial_need.is_empty());
        core::mem::forget((bv, state));
        return;
    }
    assert!(state.heads.get(&ACTOR) == Some(&CrsqlDbVersion(pre.max)), "C02: advertised head");

    // advertised need ranges: exactly the gap set, well-formed
    let mut adv_need = 0u32;
    if let Some(ranges) = state.need.get(&ACTOR) {
        let mut prev_end: Option<u64> = None;
        for r in ranges.iter() {
            let (a, b) = (r.start().0, r.end().0);
            assert!(a >= 1 && a <= b && b <= pre.max, "C02: advertised need range outside 1..=head");
            if let Some(p) = prev_end {
                assert!(a > p + 1, "C02: advertised need ranges overlap or touch");
            }
            prev_end = Some(b);
            adv_need |= bits(a, b);
        }
    }
    assert!(adv_need == pre.need_mask, "C02: advertised need differs from the gap set");

    // every version: exactly one class, and partial versions carry exactly their missing seqs
    let v: u64 = kani::any();
    kani::assume(v >= 1 && v <= N);
    let spec = {
        let mut s: Option<PartialSpec> = None;
        let mut i = 0;
        while i < 2 {
            if let Some(p) = pre.partials[i] {
                if p.version == v {
                    s = Some(p);
                }
            }
            i += 1;
        }
        s
    };
    let adv_partial = state.partial_need.get(&ACTOR).and_then(|m| m.get(&CrsqlDbVersion(v)));
    let in_need = adv_need & (1 << v) != 0;
    assert!(!(in_need && adv_partial.is_some()), "C02: version advertised both as needed and as partial");
    match spec {
        Some(p) => {
            let missing = bits(0, p.last_seq) & !p.seq_mask;
            match adv_partial {
                Some(ranges) => {
                    let mut m = 0u32;
                    let mut prev_end: Option<u64> = None;
                    for r in ranges.iter() {
                        let (a, b) = (r.start().0, r.end().0);
                        assert!(a <= b && b <= p.last_seq, "C02: advertised missing seq range malformed");
                        if let Some(pe) = prev_end {
                            assert!(a > pe + 1);
                        }
                        prev_end = Some(b);
                        m |= bits(a, b);
                    }
                    assert!(m == missing, "C02: advertised missing sequences are not exactly the missing ones");
                    assert!(missing != 0, "C02: a complete version is advertised as partial");
                }
                None => {
                    assert!(missing == 0, "C02: a partially received version (sequences still missing) is advertised as held");
                }
            }
        }
        None => {
            assert!(adv_partial.is_none(), "C02: version advertised as partial without a partial record");
        }
    }
    // contains(v, seqs) ⟺ the version is known and every requested seq is recorded
    let (s0, s1): (u64, u64) = (kani::any(), kani::any());
    kani::assume(s0 <= s1 && s1 <= M);
    let has = bv.contains(CrsqlDbVersion(v), Some(&(CrsqlSeq(s0)..=CrsqlSeq(s1))));
    let known = v <= pre.max && !in_need;
    let expect_has = known
        && match spec {
            Some(p) => p.seq_mask & bits(s0, s1) == bits(s0, s1),
            None => true,
        };
    assert!(has == expect_has, "C02: contains(version, seqs) disagrees with the recorded sequences");

    kani::cover!(true, "partition checked");
    core::mem::forget((bv, state));
}

// ---------------------------------------------------------------------------------------------
// H3 — insert_partial: union of sequence sets; head moves iff the version is new
// ---------------------------------------------------------------------------------------------
#[kani::proof]
fn c02_insert_partial_is_union() {
    let pre = any_pre(1);
    let (mut bv, _conn) = build(&pre);
    let version: u64 = kani::any();
    kani::assume(version >= 1 && version <= N);
    let (a, b): (u64, u64) = (kani::any(), kani::any());
    let last_seq: u64 = kani::any();
    kani::assume(a <= b && b <= last_seq && last_seq <= M);
    let existing = match pre.partials[0] {
        Some(p) if p.version == version => Some(p),
        _ => None,
    };
    if let Some(p) = existing {
        kani::assume(p.last_seq == last_seq);
    }
    let mut seqs = RangeInclusiveSet::new();
    seqs.insert(CrsqlSeq(a)..=CrsqlSeq(b));
    let out = bv.insert_partial(CrsqlDbVersion(version), PartialVersion { seqs, last_seq: CrsqlSeq(last_seq), ts: Timestamp(1) });
    let expect = bits(a, b) | existing.map(|p| p.seq_mask).unwrap_or(0);
    assert!(mask_of_seqs(&out.seqs) == expect, "C02: insert_partial result is not the union");
    match bv.partials.get(&CrsqlDbVersion(version)) {
        Some(p) => {
            assert!(mask_of_seqs(&p.seqs) == expect, "C02: stored partial is not the union")
        }
        None => {
            assert!(false, "C02: partial not stored")
        }
    }
    let new_max = if version > pre.max { version } else { pre.max };
    assert!(bv.max == Some(CrsqlDbVersion(new_max)), "C02: head after insert_partial");
    kani::cover!(existing.is_some(), "merge into existing partial");
    kani::cover!(version > pre.max, "new head from partial");
    core::mem::forget((bv, out));
}

// ---------------------------------------------------------------------------------------------
// H4 — reload: from_conn(rows written for a state) reproduces that state
// ---------------------------------------------------------------------------------------------
macro_rules! reload_case {
    ($name:ident, $head:expr) => {
        #[kani::proof]
        fn $name() {
            reload_reproduces_memory($head);
        }
    };
}
reload_case!(c02_reload_head0, Some(0));
reload_case!(c02_reload_head2, Some(2));
reload_case!(c02_reload_head3, Some(3));
reload_case!(c02_reload_head4, Some(4));
reload_case!(c02_reload_head6, Some(6));
fn reload_reproduces_memory(head: Option<u64>) {
    let pre = any_pre_with_head(1, head);
    let (bv, conn) = build(&pre);
    {
        // rows as the write path leaves them: one seq row per maximal run, crsql_db_versions
        // holds the highest APPLIED version (arbitrary value <= head; a partial may exceed it)
        let mut db = conn.db.borrow_mut();
        let applied: u64 = kani::any();
        kani::assume(applied <= pre.max);
        let top_partial = match pre.partials[0] {
            Some(p) => p.version,
            None => 0,
        };
        kani::assume(applied == pre.max || top_partial == pre.max);
        db.db_version = if applied == 0 { None } else { Some(applied) };
        if let Some(p) = pre.partials[0] {
            for r in set_of_mask(p.seq_mask, 0, M, CrsqlSeq).iter() {
                let n = db.seqs_len;
                db.seqs[n] = SeqRow { version: p.version, start_seq: r.start().0, end_seq: r.end().0, last_seq: p.last_seq, ts: 0 };
                db.seqs_len += 1;
            }
        }
    }
    let re = match BookedVersions::from_conn(&conn, ACTOR) {
        Ok(r) => r,
        Err(_) => {
            assert!(false, "C02: reload failed");
            return;
        }
    };
    assert!(re.max == bv.max, "C02: reloaded head differs");
    assert!(mask_of_versions(&re.needed, N) == pre.need_mask, "C02: reloaded gap set differs");
    match pre.partials[0] {
        Some(p) => match re.partials.get(&CrsqlDbVersion(p.version)) {
            Some(q) => {
                assert!(mask_of_seqs(&q.seqs) == p.seq_mask && q.last_seq.0 == p.last_seq, "C02: reloaded partial differs")
            }
            None => {
                assert!(false, "C02: partial lost on reload")
            }
        },
        None => {
            assert!(re.partials.is_empty())
        }
    }
    kani::cover!(true, "reload checked");
    core::mem::forget((bv, re));
}

// ---------------------------------------------------------------------------------------------
// PartialVersion::is_complete ⟺ nothing of 0..=last_seq is missing
// ---------------------------------------------------------------------------------------------
#[kani::proof]
fn c02_partial_is_complete_iff_no_seq_missing() {
    let last_seq: u64 = kani::any();
    kani::assume(last_seq <= M);
    let seq_mask: u32 = kani::any();
    kani::assume(seq_mask != 0 && seq_mask & !bits(0, last_seq) == 0);
    let p = PartialVersion { seqs: set_of_mask(seq_mask, 0, M, CrsqlSeq), last_seq: CrsqlSeq(last_seq), ts: Timestamp(0) };
    let complete = p.is_complete();
    assert!(complete == (seq_mask == bits(0, last_seq)), "C02: is_complete disagrees with the received sequences");
    kani::cover!(complete, "complete");
    kani::cover!(!complete, "incomplete");
    core::mem::forget(p);
}
