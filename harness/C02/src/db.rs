// Model of the three bookkeeping tables for ONE actor (the sliced code always filters by actor;
// the model asserts that the actor parameter is the expected one).
//   __corro_bookkeeping_gaps(actor_id, start, end)  PRIMARY KEY (actor_id, start)
//   __corro_seq_bookkeeping(site_id, db_version, start_seq, end_seq, last_seq, ts)
//   crsql_db_versions(site_id, db_version)
// Statement semantics are the plain reading of the sliced SQL texts (single-table, equality
// WHERE clauses); the texts are the repository's own (sliced consts), so a changed text no longer
// classifies and the check reports inconclusive rather than passing.

pub const DB_ROWS: usize = 4;

#[derive(Clone, Copy)]
pub struct SeqRow {
    pub version: u64,
    pub start_seq: u64,
    pub end_seq: u64,
    pub last_seq: u64,
    pub ts: u64,
}

pub struct Db {
    pub actor: ActorId,
    pub gaps: [(u64, u64); DB_ROWS],
    pub gaps_len: usize,
    pub seqs: [SeqRow; DB_ROWS],
    pub seqs_len: usize,
    pub db_version: Option<u64>,
    // oracle bookkeeping
    pub deletes: usize,
    pub ineffective_deletes: usize,
    pub pk_conflicts: usize,
}

static SQL: SqlTable<6> = SqlTable::new([
    SQL_GAP_DELETE,
    SQL_GAP_INSERT,
    SQL_GAP_SELECT_ONE,
    SQL_DBV_SELECT,
    SQL_SEQ_SELECT,
    SQL_GAP_SELECT_ALL,
]);

impl Db {
    pub fn new(actor: ActorId) -> Self {
        Db {
            actor,
            gaps: [(0, 0); DB_ROWS],
            gaps_len: 0,
            seqs: [SeqRow { version: 0, start_seq: 0, end_seq: 0, last_seq: 0, ts: 0 }; DB_ROWS],
            seqs_len: 0,
            db_version: None,
            deletes: 0,
            ineffective_deletes: 0,
            pk_conflicts: 0,
        }
    }
    fn u(v: Val) -> u64 {
        match v {
            Val::U64(x) => x,
            _ => panic!("VENV-SQL: integer parameter expected"),
        }
    }
    fn check_actor(&self, v: Val) {
        assert!(Self::u(v) == self.actor.0 as u64, "VENV-SQL: statement for another actor");
    }
    pub fn gap_mask(&self) -> u32 {
        let mut m = 0u32;
        let mut i = 0;
        while i < DB_ROWS {
            if i < self.gaps_len {
                let (s, e) = self.gaps[i];
                let mut v = s;
                while v <= e && v < 32 {
                    m |= 1 << v;
                    v += 1;
                }
            }
            i += 1;
        }
        m
    }
}

impl Backend for Db {
    fn execute(&mut self, sql: &'static str, p: &ParamList) -> rusqlite::Result<usize> {
        match SQL.classify(sql) {
            0 => {
                // DELETE ... WHERE actor_id = :actor_id AND start = :start AND end = :end
                self.check_actor(p.named(pid!(":actor_id")));
                let (s, e) = (Self::u(p.named(pid!(":start"))), Self::u(p.named(pid!(":end"))));
                self.deletes += 1;
                let mut i = 0;
                let mut hit = DB_ROWS;
                while i < DB_ROWS {
                    if i < self.gaps_len && self.gaps[i] == (s, e) {
                        hit = i;
                    }
                    i += 1;
                }
                if hit == DB_ROWS {
                    self.ineffective_deletes += 1;
                    return Ok(0);
                }
                let mut j = hit;
                while j + 1 < DB_ROWS {
                    if j + 1 < self.gaps_len {
                        self.gaps[j] = self.gaps[j + 1];
                    }
                    j += 1;
                }
                self.gaps_len -= 1;
                Ok(1)
            }
            1 => {
                // INSERT ... VALUES (:actor_id, :start, :end); PRIMARY KEY (actor_id, start)
                self.check_actor(p.named(pid!(":actor_id")));
                let (s, e) = (Self::u(p.named(pid!(":start"))), Self::u(p.named(pid!(":end"))));
                let mut i = 0;
                while i < DB_ROWS {
                    if i < self.gaps_len && self.gaps[i].0 == s {
                        self.pk_conflicts += 1;
                        return Err(rusqlite::Error::Other(19)); // SQLITE_CONSTRAINT
                    }
                    i += 1;
                }
                assert!(self.gaps_len < DB_ROWS, "VENV-CAPACITY: gaps table");
                self.gaps[self.gaps_len] = (s, e);
                self.gaps_len += 1;
                Ok(1)
            }
            _ => panic!("VENV-SQL: not a write statement"),
        }
    }

    fn query(&mut self, sql: &'static str, p: &ParamList) -> rusqlite::Result<RowSet> {
        let mut out = RowSet::empty();
        match SQL.classify(sql) {
            2 => {
                self.check_actor(p.named(pid!(":actor_id")));
                let s = Self::u(p.named(pid!(":start")));
                let mut i = 0;
                while i < DB_ROWS {
                    if i < self.gaps_len && self.gaps[i].0 == s {
                        out.push(&[Val::U64(self.actor.0 as u64), Val::U64(self.gaps[i].0), Val::U64(self.gaps[i].1)]);
                    }
                    i += 1;
                }
            }
            3 => {
                self.check_actor(p.pos(0));
                if let Some(v) = self.db_version {
                    out.push(&[Val::U64(v)]);
                }
            }
            4 => {
                self.check_actor(p.pos(0));
                let mut i = 0;
                while i < DB_ROWS {
                    if i < self.seqs_len {
                        let r = self.seqs[i];
                        out.push(&[Val::U64(r.version), Val::U64(r.start_seq), Val::U64(r.end_seq), Val::U64(r.last_seq), Val::U64(r.ts)]);
                    }
                    i += 1;
                }
            }
            5 => {
                self.check_actor(p.pos(0));
                let mut i = 0;
                while i < DB_ROWS {
                    if i < self.gaps_len {
                        out.push(&[Val::U64(self.gaps[i].0), Val::U64(self.gaps[i].1)]);
                    }
                    i += 1;
                }
            }
            _ => panic!("VENV-SQL: not a query"),
        }
        Ok(out)
    }
}
