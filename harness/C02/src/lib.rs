//! C02 — advertised sync state is an exact, durable summary of what a node holds.
//! Sliced: PartialVersion, VersionsSnapshot (insert_db, compute_gaps_change, insert_gaps),
//! BookedVersions (from_conn, contains*, insert_partial, snapshot, commit_snapshot, ...),
//! GapsChanges, the per-actor body of generate_sync, CrsqlDbVersion/CrsqlSeq arithmetic.
#![allow(unused_imports, dead_code, unused_variables, unused_mut, clippy::all)]
#![feature(step_trait)]

pub mod host {
    use std::cmp;
    use std::iter::Step;
    use std::ops::{Add, RangeInclusive, Sub};
    use venv::collections::{btree_map, BTreeMap, HashMap, HashSet, Vec};
    use venv::avec as vec;
    use venv::rangemap::{RangeInclusiveSet, StepLite};
    use venv::sql::{Backend, OptionalExtension, ParamList, RowSet, SqlTable, Val};
    use venv::{assert_always, debug, json, named_params, pid, trace, warn};

    pub mod rusqlite {
        pub use venv::sqlite::{Error, Result};
    }
    pub type Connection = venv::sql::Conn<Db>;

    // ---- opaque identities (the bookkeeping code only copies and compares them) ----
    #[derive(Debug, Default, Clone, Copy, Eq, PartialEq, Ord, PartialOrd, Hash)]
    pub struct ActorId(pub u8);
    #[derive(Debug, Default, Clone, Copy, Eq, PartialEq, Ord, PartialOrd, Hash)]
    pub struct Timestamp(pub u64);
    impl venv::sql::ToVal for ActorId {
        fn to_val(&self) -> Val {
            Val::U64(self.0 as u64)
        }
    }
    impl venv::sql::ToVal for CrsqlDbVersion {
        fn to_val(&self) -> Val {
            Val::U64(self.0)
        }
    }
    impl venv::sql::ToVal for CrsqlSeq {
        fn to_val(&self) -> Val {
            Val::U64(self.0)
        }
    }
    impl venv::sql::FromVal for ActorId {
        fn from_val(v: Val) -> rusqlite::Result<Self> {
            u64::from_val(v).map(|x| ActorId(x as u8))
        }
    }
    impl venv::sql::FromVal for CrsqlDbVersion {
        fn from_val(v: Val) -> rusqlite::Result<Self> {
            u64::from_val(v).map(CrsqlDbVersion)
        }
    }
    impl venv::sql::FromVal for CrsqlSeq {
        fn from_val(v: Val) -> rusqlite::Result<Self> {
            u64::from_val(v).map(CrsqlSeq)
        }
    }
    impl venv::sql::FromVal for Timestamp {
        fn from_val(v: Val) -> rusqlite::Result<Self> {
            u64::from_val(v).map(Timestamp)
        }
    }

    include!("sliced/base.rs");
    include!("sliced/agent.rs");
    include!("sliced/sync.rs");

    // `impl Step` mirrors crates/klukai-types/src/base.rs (three methods delegating to u64); the
    // Kani toolchain's `Step` has two further required methods, so the repository's impl cannot be
    // compiled here as-is. ASSUMPTION recorded in check.json.
    macro_rules! step_like_repo {
        ($t:ident) => {
            impl Step for $t {
                fn steps_between(start: &Self, end: &Self) -> (usize, Option<usize>) {
                    u64::steps_between(&start.0, &end.0)
                }
                fn forward_checked(start: Self, count: usize) -> Option<Self> {
                    u64::forward_checked(start.0, count).map(Self)
                }
                fn backward_checked(start: Self, count: usize) -> Option<Self> {
                    u64::backward_checked(start.0, count).map(Self)
                }
                fn forward_overflowing(start: Self, count: usize) -> (Self, bool) {
                    let (v, o) = u64::forward_overflowing(start.0, count);
                    (Self(v), o)
                }
                fn backward_overflowing(start: Self, count: usize) -> (Self, bool) {
                    let (v, o) = u64::backward_overflowing(start.0, count);
                    (Self(v), o)
                }
            }
        };
    }
    step_like_repo!(CrsqlDbVersion);
    step_like_repo!(CrsqlSeq);

    include!("db.rs");

    #[cfg(kani)]
    mod proofs {
        use super::*;
        include!("proofs.rs");
    }
}
