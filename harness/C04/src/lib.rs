//! C04 — sync requests ask for everything the peer can give and nothing beyond its head.
//! Sliced: SyncStateV1::compute_available_needs, SyncNeedV1, the client-side request de-dup
//! expression of parallel_sync.
#![allow(unused_imports, dead_code, unused_variables, unused_mut, clippy::all)]

pub mod host {
    use std::cmp;
    use std::ops::{Add, RangeInclusive, Sub};
    use venv::avec as vec;
    use venv::collections::{HashMap, Vec};
    use venv::rangemap::{RangeInclusiveSet, StepLite};
    use venv::{debug, trace, warn};

    #[derive(Debug, Default, Clone, Copy, Eq, PartialEq, Ord, PartialOrd, Hash)]
    pub struct ActorId(pub u8);
    #[derive(Debug, Default, Clone, Copy, Eq, PartialEq, Ord, PartialOrd, Hash)]
    pub struct Timestamp(pub u64);

    include!("sliced/base.rs");
    include!("sliced/sync.rs");
    include!("sliced/peer.rs");
    include!("sliced/parts.rs");
    // the three request-producing blocks of compute_available_needs' per-actor loop body,
    // each sliced as a method so that `self` keeps its meaning
    include!("sliced/impl_parts.rs");

    #[cfg(kani)]
    mod proofs {
        use super::*;
        include!("proofs.rs");
    }
}
