// Bounds: versions 1..=N, sequences 0..=M; actors: SELF (us), A and B (foreign); per side and
// actor: arbitrary head <= N, arbitrary need set (maximal runs), <= 1 partially held version.
const N: u64 = env_num(option_env!("VERIF_C04_N"), 4);
const M: u64 = env_num(option_env!("VERIF_C04_M"), 3);
const fn env_num(s: Option<&str>, d: u64) -> u64 {
    match s {
        Some(s) => (s.as_bytes()[0] - b'0') as u64,
        None => d,
    }
}
const SELF: ActorId = ActorId(1);
const PEER: ActorId = ActorId(9);
const A: ActorId = ActorId(2);
const B: ActorId = ActorId(3);

fn bits(lo: u64, hi: u64) -> u32 {
    if lo > hi {
        0
    } else {
        (((1u64 << (hi + 1)) - 1) & !((1u64 << lo) - 1)) as u32
    }
}
fn runs<T>(mask: u32, lo: u64, hi: u64, mk: fn(u64) -> T) -> Vec<RangeInclusive<T>> {
    let mut out = Vec::new();
    let mut v = lo;
    let mut run: Option<u64> = None;
    while v <= hi + 1 {
        let on = v <= hi && mask & (1 << v) != 0;
        match (run, on) {
            (None, true) => run = Some(v),
            (Some(st), false) => {
                out.push(mk(st)..=mk(v - 1));
                run = None;
            }
            _ => {}
        }
        v += 1;
    }
    out
}

/// what one side knows about one actor (0 = actor unknown to that side)
#[derive(Clone, Copy)]
struct Side {
    head: u64,
    need: u32,
    /// partially held version (0 = none) and its MISSING sequences (what partial_need lists)
    pv: u64,
    missing: u32,
}
fn any_side() -> Side {
    let head: u64 = kani::any();
    kani::assume(head <= N);
    let need: u32 = kani::any();
    kani::assume(need & !bits(1, head) == 0);
    let pv: u64 = kani::any();
    let missing: u32 = kani::any();
    if pv == 0 {
        kani::assume(missing == 0);
    } else {
        kani::assume(pv <= head && need & (1 << pv) == 0);
        kani::assume(missing != 0 && missing & !bits(0, M) == 0);
    }
    Side { head, need, pv, missing }
}
fn put(state: &mut SyncStateV1, actor: ActorId, s: &Side, explicit_zero_head: bool) {
    if s.head == 0 {
        if explicit_zero_head {
            state.heads.insert(actor, CrsqlDbVersion(0));
        }
        return;
    }
    state.heads.insert(actor, CrsqlDbVersion(s.head));
    if s.need != 0 {
        state.need.insert(actor, runs(s.need, 1, N, CrsqlDbVersion));
    }
    if s.pv != 0 {
        let mut m = HashMap::new();
        m.insert(CrsqlDbVersion(s.pv), runs(s.missing, 0, M, CrsqlSeq));
        state.partial_need.insert(actor, m);
    }
}

/// everything requested for `actor`, folded into masks; asserts well-formedness on the way
struct Requested {
    full: u32,
    partial_version: u64,
    partial_seqs: u32,
    partial_entries: usize,
}
fn fold_requests(needs: &HashMap<ActorId, Vec<SyncNeedV1>>, actor: ActorId, peer_head: u64) -> Requested {
    let mut r = Requested { full: 0, partial_version: 0, partial_seqs: 0, partial_entries: 0 };
    if let Some(list) = needs.get(&actor) {
        for need in list.iter() {
            match need {
                SyncNeedV1::Full { versions } => {
                    let (a, b) = (versions.start().0, versions.end().0);
                    assert!(a >= 1 && a <= b, "C04: malformed version range requested");
                    assert!(b <= peer_head, "C04: request beyond the peer's advertised head");
                    r.full |= bits(a, b);
                }
                SyncNeedV1::Partial { version, seqs } => {
                    assert!(version.0 >= 1 && version.0 <= peer_head, "C04: partial request beyond the peer's advertised head");
                    r.partial_entries += 1;
                    r.partial_version = version.0;
                    for s in seqs.iter() {
                        assert!(s.start() <= s.end(), "C04: malformed sequence range requested");
                        r.partial_seqs |= bits(s.start().0, s.end().0);
                    }
                }
                SyncNeedV1::Empty { .. } => {
                    assert!(false, "C04: an Empty need is never a request");
                }
            }
        }
    }
    r
}

fn check_actor(needs: &HashMap<ActorId, Vec<SyncNeedV1>>, actor: ActorId, ours: &Side, theirs: &Side) {
    let req = fold_requests(needs, actor, theirs.head);
    if theirs.head == 0 {
        assert!(needs.get(&actor).is_none(), "C04: request for an actor the peer has nothing of");
        return;
    }
    // what the peer advertises as fully held
    let peer_has = bits(1, theirs.head) & !theirs.need & !(if theirs.pv != 0 { 1 << theirs.pv } else { 0 });
    // versions we lack entirely: listed as needed, or beyond our head
    let we_lack = ours.need | bits(ours.head + 1, theirs.head);
    assert!(we_lack & peer_has & !req.full == 0, "C04: a version the peer holds and we lack is not requested");
    // partially held version: every missing sequence the peer can supply is requested
    if ours.pv != 0 && ours.pv <= theirs.head {
        if peer_has & (1 << ours.pv) != 0 {
            assert!(req.partial_entries >= 1 && req.partial_version == ours.pv, "C04: no partial request although the peer holds the version");
            assert!(req.partial_seqs == ours.missing, "C04: partial request differs from our missing sequences");
        } else if theirs.pv == ours.pv {
            // peer holds it partially: it has 0..=end minus what IT lists as missing
            let top = |m: u32| 31 - m.leading_zeros() as u64;
            let end = if top(theirs.missing) > top(ours.missing) { top(theirs.missing) } else { top(ours.missing) };
            let peer_seqs = bits(0, end) & !theirs.missing;
            assert!(ours.missing & peer_seqs & !req.partial_seqs == 0, "C04: a missing sequence the peer holds is not requested");
            assert!(req.partial_seqs & !ours.missing == 0, "C04: sequences requested that we are not missing");
        }
    } else {
        assert!(req.partial_entries == 0, "C04: partial request without a partial version of ours");
    }
}

#[kani::proof]
fn c04_requests_complete_and_within_head() {
    let (our_a, their_a) = (any_side(), any_side());
    let (our_b, their_b) = (any_side(), any_side());
    let their_self = any_side();
    let mut ours = SyncStateV1 { actor_id: SELF, ..Default::default() };
    let mut theirs = SyncStateV1 { actor_id: PEER, ..Default::default() };
    put(&mut ours, A, &our_a, false);
    put(&mut theirs, A, &their_a, kani::any());
    put(&mut ours, B, &our_b, false);
    put(&mut theirs, B, &their_b, kani::any());
    // the peer also advertises versions authored by us
    put(&mut theirs, SELF, &their_self, false);
    let our_self = any_side();
    put(&mut ours, SELF, &our_self, false);

    let needs = ours.compute_available_needs(&theirs);

    assert!(needs.get(&SELF).is_none(), "C04: asked a peer for versions we authored ourselves");
    assert!(needs.get(&PEER).is_none());
    check_actor(&needs, A, &our_a, &their_a);
    check_actor(&needs, B, &our_b, &their_b);

    kani::cover!(our_a.pv != 0 && their_a.pv == our_a.pv, "both sides hold the same version partially");
    kani::cover!(our_a.need != 0 && their_a.need != 0 && needs.get(&A).is_some(), "needs on both sides");
    kani::cover!(our_b.head == 0 && their_b.head > 0, "actor known to the peer only");
    kani::cover!(our_b.head > 0 && their_b.head == 0, "actor known to us only");
    core::mem::forget((ours, theirs, needs));
}

/// single foreign actor, case-split on the partial-version situation (each case keeps the
/// solver's state small; their union is every pair of well-formed states for one actor)
fn single_actor(case: u8) {
    let (mut our_a, mut their_a) = (any_side(), any_side());
    match case {
        // 0: we hold no version partially (Full requests only)
        0 => kani::assume(our_a.pv == 0),
        // 1: we hold one partially, the peer does not hold THAT version partially
        1 => kani::assume(our_a.pv != 0 && their_a.pv != our_a.pv),
        // 2: both hold the same version partially
        _ => kani::assume(our_a.pv != 0 && their_a.pv == our_a.pv),
    }
    let mut ours = SyncStateV1 { actor_id: SELF, ..Default::default() };
    let mut theirs = SyncStateV1 { actor_id: PEER, ..Default::default() };
    put(&mut ours, A, &our_a, false);
    put(&mut theirs, A, &their_a, kani::any());
    let needs = ours.compute_available_needs(&theirs);
    check_actor(&needs, A, &our_a, &their_a);
    kani::cover!(needs.get(&A).is_some(), "something requested");
    core::mem::forget((ours, theirs, needs));
}
#[kani::proof]
fn c04_requests_no_partial_of_ours() {
    single_actor(0);
}
#[kani::proof]
fn c04_requests_partial_ours_only() {
    single_actor(1);
}
#[kani::proof]
fn c04_requests_partial_on_both_sides() {
    single_actor(2);
}

// ---------------------------------------------------------------------------------------------
// client-side de-duplication across servers: every needed version / sequence is forwarded
// exactly once, whatever the order the (possibly overlapping) needs are popped in
// ---------------------------------------------------------------------------------------------
#[kani::proof]
fn c04_dedup_forwards_each_version_once() {
    let mut req_full: HashMap<ActorId, RangeInclusiveSet<CrsqlDbVersion>> = HashMap::new();
    let mut req_partials: HashMap<(ActorId, CrsqlDbVersion), RangeInclusiveSet<CrsqlSeq>> = HashMap::new();
    let mut offered = 0u32; // union of all needs popped so far (actor A)
    let mut forwarded = 0u32; // union of everything forwarded so far
    let mut k = 0;
    while k < 3 {
        let (a, b): (u64, u64) = (kani::any(), kani::any());
        kani::assume(1 <= a && a <= b && b <= N);
        let need = SyncNeedV1::Full { versions: CrsqlDbVersion(a)..=CrsqlDbVersion(b) };
        let out = dedup_request(need, A, &mut req_full, &mut req_partials);
        let mut now = 0u32;
        if let Some(list) = &out {
            assert!(!list.is_empty());
            for n in list.iter() {
                match n {
                    SyncNeedV1::Full { versions } => {
                        let m = bits(versions.start().0, versions.end().0);
                        assert!(versions.start() <= versions.end());
                        assert!(m & now == 0, "C04: a version forwarded twice in one request");
                        now |= m;
                    }
                    _ => {
                        assert!(false, "C04: de-dup changed the need kind")
                    }
                }
            }
        }
        assert!(now & forwarded == 0, "C04: a version already requested from another server is requested again");
        assert!(now & !bits(a, b) == 0, "C04: forwarded versions outside the need");
        offered |= bits(a, b);
        forwarded |= now;
        assert!(forwarded == offered, "C04: a needed version was dropped by de-duplication");
        core::mem::forget(out);
        k += 1;
    }
    kani::cover!(forwarded.count_ones() >= 3, "several versions forwarded");
    core::mem::forget((req_full, req_partials));
}

#[kani::proof]
fn c04_dedup_forwards_each_seq_once() {
    let mut req_full: HashMap<ActorId, RangeInclusiveSet<CrsqlDbVersion>> = HashMap::new();
    let mut req_partials: HashMap<(ActorId, CrsqlDbVersion), RangeInclusiveSet<CrsqlSeq>> = HashMap::new();
    let mut offered = 0u32;
    let mut forwarded = 0u32;
    let mut k = 0;
    while k < 2 {
        let mask: u32 = kani::any();
        kani::assume(mask != 0 && mask & !bits(0, M) == 0);
        let need = SyncNeedV1::Partial { version: CrsqlDbVersion(5), seqs: runs(mask, 0, M, CrsqlSeq) };
        let out = dedup_request(need, A, &mut req_full, &mut req_partials);
        let mut now = 0u32;
        if let Some(list) = &out {
            assert!(list.len() == 1);
            match &list[0] {
                SyncNeedV1::Partial { version, seqs } => {
                    assert!(version.0 == 5 && !seqs.is_empty());
                    for s in seqs.iter() {
                        let m = bits(s.start().0, s.end().0);
                        assert!(m & now == 0);
                        now |= m;
                    }
                }
                _ => {
                    assert!(false, "C04: de-dup changed the need kind")
                }
            }
        }
        assert!(now & forwarded == 0, "C04: a sequence already requested is requested again");
        assert!(now & !mask == 0);
        offered |= mask;
        forwarded |= now;
        assert!(forwarded == offered, "C04: a needed sequence was dropped by de-duplication");
        core::mem::forget(out);
        k += 1;
    }
    core::mem::forget((req_full, req_partials));
}

// ---------------------------------------------------------------------------------------------
// compute_available_needs, one block of its per-actor loop body at a time (quick tier).  The
// blocks communicate only through `other_haves` (what the peer fully holds) and `needs` (the
// output, append-only), so: haves correct ∧ each block correct for ANY haves ⇒ the body is.
// ---------------------------------------------------------------------------------------------
fn set_of_mask<T: Ord + Clone + StepLite>(mask: u32, lo: u64, hi: u64, mk: fn(u64) -> T) -> RangeInclusiveSet<T> {
    let mut s = RangeInclusiveSet::new();
    let mut v = lo;
    let mut run: Option<u64> = None;
    while v <= hi + 1 {
        let on = v <= hi && mask & (1 << v) != 0;
        match (run, on) {
            (None, true) => run = Some(v),
            (Some(st), false) => {
                s.insert(mk(st)..=mk(v - 1));
                run = None;
            }
            _ => {}
        }
        v += 1;
    }
    s
}
fn mask_of_set(s: &RangeInclusiveSet<CrsqlDbVersion>) -> u32 {
    let mut m = 0u32;
    for r in s.iter() {
        assert!(r.start() <= r.end() && r.end().0 <= N);
        m |= bits(r.start().0, r.end().0);
    }
    m
}

/// what the peer "has" of an actor = 1..=head minus its needed ranges minus its partial versions
#[kani::proof]
fn c04_part_peer_haves() {
    let their = any_side();
    kani::assume(their.head >= 1);
    let mut theirs = SyncStateV1 { actor_id: PEER, ..Default::default() };
    put(&mut theirs, A, &their, false);
    let haves = other_haves_of(&theirs, &A, &CrsqlDbVersion(their.head));
    let expect = bits(1, their.head) & !their.need & !(if their.pv != 0 { 1 << their.pv } else { 0 });
    assert!(mask_of_set(&haves) == expect, "C04: the set of versions the peer holds is miscomputed");
    kani::cover!(their.need != 0 && their.pv != 0, "peer with gaps and a partial version");
    core::mem::forget((theirs, haves));
}

/// needed versions: exactly (our need ∩ peer haves) is requested, as well-formed Full ranges
#[kani::proof]
fn c04_part_needed_versions_requested_iff_peer_has_them() {
    let our_need: u32 = kani::any();
    kani::assume(our_need & !bits(1, N) == 0);
    part_needed_versions(our_need);
}
// the same block with our need set CONCRETE per harness (loop trip counts become concrete; the
// peer's haves stay symbolic): the seven cases are every non-empty need set over versions 1..=3
macro_rules! needed_versions_case {
    ($name:ident, $mask:expr) => {
        #[kani::proof]
        fn $name() {
            part_needed_versions($mask);
        }
    };
}
needed_versions_case!(c04_part_needed_versions_need_1_x, 0b0010);
needed_versions_case!(c04_part_needed_versions_need_2_x, 0b0100);
needed_versions_case!(c04_part_needed_versions_need_12_x, 0b0110);
needed_versions_case!(c04_part_needed_versions_need_3_x, 0b1000);
needed_versions_case!(c04_part_needed_versions_need_13_x, 0b1010);
needed_versions_case!(c04_part_needed_versions_need_23_x, 0b1100);
needed_versions_case!(c04_part_needed_versions_need_123_x, 0b1110);
fn part_needed_versions(our_need: u32) {
    // every in-scope variable of the loop body is a parameter of the block slices (a change may
    // start using any of them): the peer's head is arbitrary, what it holds lies within 1..=head
    let head: u64 = kani::any();
    kani::assume(1 <= head && head <= N);
    let haves_mask: u32 = kani::any();
    kani::assume(haves_mask & !bits(1, head) == 0);
    let theirs = SyncStateV1 { actor_id: PEER, ..Default::default() };
    let mut ours = SyncStateV1 { actor_id: SELF, ..Default::default() };
    if our_need != 0 {
        ours.need.insert(A, runs(our_need, 1, N, CrsqlDbVersion));
    }
    let haves = set_of_mask(haves_mask, 1, N, CrsqlDbVersion);
    let mut needs: HashMap<ActorId, Vec<SyncNeedV1>> = HashMap::new();
    ours.request_needed_versions_the_peer_has(&theirs, &A, &CrsqlDbVersion(head), &haves, &mut needs);
    let req = fold_requests(&needs, A, head);
    assert!(req.partial_entries == 0);
    assert!(our_need & haves_mask & !req.full == 0, "C04: a version the peer holds and we lack is not requested");
    assert!(req.full & !(our_need & haves_mask) == 0, "C04: a version requested that we do not need or the peer does not hold");
    kani::cover!(req.full != 0, "something requested");
    kani::cover!(req.full != our_need, "not all of our need is available");
    core::mem::forget((ours, theirs, haves, needs));
}

/// versions beyond our head: (our head, peer head] is requested iff the peer is ahead
#[kani::proof]
fn c04_part_versions_beyond_our_head_requested() {
    let (our_head, their_head): (u64, u64) = (kani::any(), kani::any());
    kani::assume(our_head <= N && 1 <= their_head && their_head <= N);
    let mut ours = SyncStateV1 { actor_id: SELF, ..Default::default() };
    if our_head != 0 {
        ours.heads.insert(A, CrsqlDbVersion(our_head));
    }
    let mut needs: HashMap<ActorId, Vec<SyncNeedV1>> = HashMap::new();
    let theirs = SyncStateV1 { actor_id: PEER, ..Default::default() };
    let haves: RangeInclusiveSet<CrsqlDbVersion> = RangeInclusiveSet::new();
    ours.request_versions_beyond_our_head(&theirs, &A, &CrsqlDbVersion(their_head), &haves, &mut needs);
    let req = fold_requests(&needs, A, their_head);
    assert!(req.full == bits(our_head + 1, their_head), "C04: versions beyond our head up to the peer's head are not requested exactly");
    kani::cover!(req.full != 0, "peer ahead");
    kani::cover!(needs.get(&A).is_none(), "peer not ahead");
    core::mem::forget((ours, theirs, haves, needs));
}

/// partially held version: the peer holds it completely → all our missing sequences;
/// the peer holds it partially → exactly our missing ∩ what it has (nothing if that is empty)
fn part_missing_sequences(peer_partial_too: bool) {
    let our_missing: u32 = kani::any();
    kani::assume(our_missing != 0 && our_missing & !bits(0, M) == 0);
    part_missing_sequences_of(peer_partial_too, our_missing);
}
macro_rules! missing_sequences_case {
    ($name:ident, $mask:expr) => {
        #[kani::proof]
        fn $name() {
            part_missing_sequences_of(true, $mask);
        }
    };
}
// our missing sequences concrete per harness (every non-empty subset of 0..=2), the peer's symbolic
missing_sequences_case!(c04_part_missing_sequences_both_partial_ours_0_x, 0b001);
missing_sequences_case!(c04_part_missing_sequences_both_partial_ours_1_x, 0b010);
missing_sequences_case!(c04_part_missing_sequences_both_partial_ours_01_x, 0b011);
missing_sequences_case!(c04_part_missing_sequences_both_partial_ours_2_x, 0b100);
missing_sequences_case!(c04_part_missing_sequences_both_partial_ours_02_x, 0b101);
missing_sequences_case!(c04_part_missing_sequences_both_partial_ours_12_x, 0b110);
missing_sequences_case!(c04_part_missing_sequences_both_partial_ours_012_x, 0b111);
fn part_missing_sequences_of(peer_partial_too: bool, our_missing: u32) {
    let pv: u64 = kani::any();
    kani::assume(1 <= pv && pv <= N);
    let mut ours = SyncStateV1 { actor_id: SELF, ..Default::default() };
    let mut m = HashMap::new();
    m.insert(CrsqlDbVersion(pv), runs(our_missing, 0, M, CrsqlSeq));
    ours.partial_need.insert(A, m);
    let mut theirs = SyncStateV1 { actor_id: PEER, ..Default::default() };
    let head: u64 = kani::any();
    kani::assume(1 <= head && head <= N && (!peer_partial_too || pv <= head));
    let haves_mask: u32 = kani::any();
    kani::assume(haves_mask & !bits(1, head) == 0);
    let their_missing: u32 = kani::any();
    if peer_partial_too {
        kani::assume(their_missing != 0 && their_missing & !bits(0, M) == 0);
        kani::assume(haves_mask & (1 << pv) == 0); // a partially held version is not in haves
        let mut tm = HashMap::new();
        tm.insert(CrsqlDbVersion(pv), runs(their_missing, 0, M, CrsqlSeq));
        theirs.partial_need.insert(A, tm);
    }
    let haves = set_of_mask(haves_mask, 1, N, CrsqlDbVersion);
    let mut needs: HashMap<ActorId, Vec<SyncNeedV1>> = HashMap::new();
    ours.request_missing_sequences(&theirs, &A, &CrsqlDbVersion(head), &haves, &mut needs);
    let req = fold_requests(&needs, A, N);
    assert!(req.full == 0);
    if haves_mask & (1 << pv) != 0 {
        assert!(req.partial_entries == 1 && req.partial_version == pv, "C04: no partial request although the peer holds the version");
        assert!(req.partial_seqs == our_missing, "C04: partial request differs from our missing sequences");
    } else if peer_partial_too {
        let top = |m: u32| 31 - m.leading_zeros() as u64;
        let end = if top(their_missing) > top(our_missing) { top(their_missing) } else { top(our_missing) };
        let peer_seqs = bits(0, end) & !their_missing;
        assert!(our_missing & peer_seqs & !req.partial_seqs == 0, "C04: a missing sequence the peer holds is not requested");
        assert!(req.partial_seqs & !(our_missing & peer_seqs) == 0, "C04: sequences requested that we are not missing or the peer does not hold");
        assert!(req.partial_entries == if our_missing & peer_seqs != 0 { 1 } else { 0 }, "C04: empty or duplicate partial request");
    } else {
        assert!(req.partial_entries == 0, "C04: partial request for a version the peer does not hold");
    }
    kani::cover!(req.partial_entries == 1, "partial request made");
    core::mem::forget((ours, theirs, haves, needs));
}
#[kani::proof]
fn c04_part_missing_sequences_peer_complete_or_absent() {
    part_missing_sequences(false);
}
#[kani::proof]
fn c04_part_missing_sequences_peer_partial_too() {
    part_missing_sequences(true);
}

// client-side de-duplication, inductive: from ANY already-requested set, one more need
#[kani::proof]
fn c04_dedup_step_versions() {
    let already: u32 = kani::any();
    kani::assume(already & !bits(1, N) == 0);
    let mut req_full: HashMap<ActorId, RangeInclusiveSet<CrsqlDbVersion>> = HashMap::new();
    if kani::any() {
        req_full.insert(A, set_of_mask(already, 1, N, CrsqlDbVersion));
    } else {
        kani::assume(already == 0);
    }
    let mut req_partials: HashMap<(ActorId, CrsqlDbVersion), RangeInclusiveSet<CrsqlSeq>> = HashMap::new();
    let (a, b): (u64, u64) = (kani::any(), kani::any());
    kani::assume(1 <= a && a <= b && b <= N);
    let out = dedup_request(SyncNeedV1::Full { versions: CrsqlDbVersion(a)..=CrsqlDbVersion(b) }, A, &mut req_full, &mut req_partials);
    let mut now = 0u32;
    if let Some(list) = &out {
        assert!(!list.is_empty(), "C04: an empty request list is forwarded");
        for n in list.iter() {
            match n {
                SyncNeedV1::Full { versions } => {
                    assert!(versions.start() <= versions.end());
                    let m = bits(versions.start().0, versions.end().0);
                    assert!(m & now == 0, "C04: a version forwarded twice in one request");
                    now |= m;
                }
                _ => {
                    assert!(false, "C04: de-dup changed the need kind")
                }
            }
        }
    }
    assert!(now == bits(a, b) & !already, "C04: forwarded versions are not exactly the needed ones not yet requested (a needed version dropped, or one requested twice)");
    match req_full.get(&A) {
        Some(s) => {
            assert!(mask_of_set(s) == already | bits(a, b), "C04: the requested-set does not record what was forwarded")
        }
        None => {
            assert!(false, "C04: requested-set lost")
        }
    }
    kani::cover!(now != 0 && now != bits(a, b), "partly requested before");
    kani::cover!(out.is_none(), "nothing left to request");
    core::mem::forget((req_full, req_partials, out));
}
#[kani::proof]
fn c04_dedup_step_sequences() {
    let already: u32 = kani::any();
    kani::assume(already & !bits(0, M) == 0);
    let mut req_full: HashMap<ActorId, RangeInclusiveSet<CrsqlDbVersion>> = HashMap::new();
    let mut req_partials: HashMap<(ActorId, CrsqlDbVersion), RangeInclusiveSet<CrsqlSeq>> = HashMap::new();
    if kani::any() {
        req_partials.insert((A, CrsqlDbVersion(5)), set_of_mask(already, 0, M, CrsqlSeq));
    } else {
        kani::assume(already == 0);
    }
    let mask: u32 = kani::any();
    kani::assume(mask != 0 && mask & !bits(0, M) == 0);
    let out = dedup_request(SyncNeedV1::Partial { version: CrsqlDbVersion(5), seqs: runs(mask, 0, M, CrsqlSeq) }, A, &mut req_full, &mut req_partials);
    let mut now = 0u32;
    if let Some(list) = &out {
        assert!(list.len() == 1);
        match &list[0] {
            SyncNeedV1::Partial { version, seqs } => {
                assert!(version.0 == 5 && !seqs.is_empty(), "C04: an empty partial request is forwarded");
                for s in seqs.iter() {
                    let m = bits(s.start().0, s.end().0);
                    assert!(s.start() <= s.end() && m & now == 0);
                    now |= m;
                }
            }
            _ => {
                assert!(false, "C04: de-dup changed the need kind")
            }
        }
    }
    assert!(now == mask & !already, "C04: forwarded sequences are not exactly the needed ones not yet requested");
    kani::cover!(now != 0 && now != mask, "partly requested before");
    core::mem::forget((req_full, req_partials, out));
}
