/// `SplitPool::create` gives the pool behind `read()` flags that make SQLite open the file
/// read-only (READONLY set, neither READWRITE nor CREATE), and the write pool a single writable
/// connection; every `SplitPool` accessor whose name promises a read-only handle delivers one
#[kani::proof]
#[kani::unwind(4)]
fn c17_read_pool_is_opened_read_only() {
    let pool = match SplitPool::create_pools(PathBuf::new(), Arc::new(Semaphore)) {
        Ok(p) => p,
        Err(_) => {
            assert!(false, "create failed in the model");
            return;
        }
    };
    let rf = pool.0.read.open_flags;
    assert!(rf.contains(OpenFlags::SQLITE_OPEN_READ_ONLY), "C17: the read pool is not opened with SQLITE_OPEN_READONLY");
    assert!(!rf.intersects(OpenFlags::SQLITE_OPEN_READ_WRITE | OpenFlags::SQLITE_OPEN_CREATE), "C17: the read pool's open flags allow writing");
    assert!(!rf.opens_writable(), "C17: the read pool hands out writable connections");
    assert!(pool.0.write.open_flags.contains(OpenFlags::SQLITE_OPEN_READ_WRITE), "C17: the write pool cannot write");
    assert!(pool.0.write.max_size == 1, "C17: more than one pooled writer");
    // accessors
    match venv::task::block_on(pool.read()) {
        Ok(c) => {
            assert!(!c.flags.opens_writable(), "C17: read() returned a writable connection");
            kani::cover!(true, "read() delivers");
            core::mem::forget(c);
        }
        Err(_) => {}
    }
    match pool.read_blocking() {
        Ok(c) => {
            assert!(!c.flags.opens_writable(), "C17: read_blocking() returned a writable connection");
            core::mem::forget(c);
        }
        Err(_) => {}
    }
    match pool.client_dedicated_readonly() {
        Ok(c) => {
            assert!(!c.flags.opens_writable(), "C17: client_dedicated_readonly() returned a writable connection");
            kani::cover!(true, "dedicated read-only delivers");
            core::mem::forget(c);
        }
        Err(_) => {}
    }
    core::mem::forget(pool);
}

/// whatever statement text reaches `/v1/queries`, and whatever `sqlite3_stmt_readonly` says about
/// it, it is prepared — if at all — on a connection that cannot write
#[kani::proof]
#[kani::unwind(4)]
fn c17_query_endpoint_prepares_only_on_read_only_connections() {
    let pool = match SplitPool::create_pools(PathBuf::new(), Arc::new(Semaphore)) {
        Ok(p) => p,
        Err(_) => return,
    };
    unsafe {
        PREPARED = 0;
        PREPARED_ON_WRITABLE = 0;
    }
    venv::task::block_on(query_conn_and_prepare(pool, oneshot::Sender(core::marker::PhantomData), Statement(String::new()), SocketAddr));
    let (n, w) = unsafe { (PREPARED, PREPARED_ON_WRITABLE) };
    assert!(w == 0, "C17: a statement submitted to the query endpoint was prepared on a writable connection");
    assert!(n <= 1);
    kani::cover!(n == 1, "a statement was prepared");
    kani::cover!(n == 0, "no connection available");
}
