/// arbitrary ASCII string of 0..=max bytes
fn any_string(max: usize) -> (String, [u8; 4], usize) {
    let n: usize = kani::any();
    kani::assume(n <= max && max <= 4);
    let raw: [u8; 4] = kani::any();
    let mut s = String::new();
    let mut i = 0;
    while i < 4 {
        if i < n {
            kani::assume(raw[i] >= 0x21 && raw[i] < 0x7f);
            s.push(raw[i] as char);
        }
        i += 1;
    }
    (s, raw, n)
}

/// the middleware lets a request through ⟺ no token is configured, or the request carries a
/// bearer token that is byte-for-byte the configured one (not a prefix, suffix or other token);
/// everything else is answered 401 before any handler runs
#[kani::proof]
#[kani::unwind(6)]
fn c17_request_passes_iff_token_matches() {
    let configured: bool = kani::any();
    let (tok, traw, tn) = any_string(2);
    let has_header: bool = kani::any();
    let (hdr, hraw, hn) = any_string(3);
    let agent = Agent { config: Config { api: ApiConfig { authorization: if configured { Some(AuthzConfig::BearerToken(tok)) } else { None } } } };
    let header = if has_header { Some(TypedHeader(Authorization(Bearer { token: hdr }))) } else { None };
    let res = authz_gate(&agent, header);
    let same = tn == hn && (tn < 1 || traw[0] == hraw[0]) && (tn < 2 || traw[1] == hraw[1]) && (tn < 3 || traw[2] == hraw[2]);
    let expect_pass = !configured || (has_header && same);
    assert!(res.is_ok() == expect_pass, "C17: the authorization middleware admits a request without exactly the configured bearer token (or rejects a valid one)");
    if !expect_pass {
        assert!(res == Err(axum::http::StatusCode::UNAUTHORIZED), "C17: rejection must be a client error");
    }
    kani::cover!(configured && has_header && same, "right token");
    kani::cover!(configured && has_header && !same && hn == tn + 1, "token with a suffix");
    kani::cover!(configured && !has_header, "missing header");
    core::mem::forget(agent);
}
