//! C17 — the HTTP API enforces its token (middleware decision).
//! Sliced: the decision statements of require_authz and AuthzConfig.
#![allow(unused_imports, dead_code, unused_variables, unused_mut, clippy::all)]

pub mod host {
    /// `TypedHeader<Authorization<Bearer>>` as the extractor delivers it: present only when the
    /// request carried `Authorization: Bearer <token>` (parsing is the `headers` crate's job)
    pub struct TypedHeader<T>(pub T);
    pub struct Authorization<T>(pub T);
    pub struct Bearer {
        pub token: String,
    }
    impl Authorization<Bearer> {
        pub fn token(&self) -> &str {
            &self.0.token
        }
    }
    impl<T> core::ops::Deref for TypedHeader<T> {
        type Target = T;
        fn deref(&self) -> &T {
            &self.0
        }
    }
    pub mod axum {
        pub mod http {
            #[derive(Debug, Clone, Copy, PartialEq, Eq)]
            pub enum StatusCode {
                UNAUTHORIZED,
            }
        }
    }
    pub struct ApiConfig {
        pub authorization: Option<AuthzConfig>,
    }
    pub struct Config {
        pub api: ApiConfig,
    }
    pub struct Agent {
        pub config: Config,
    }
    impl Agent {
        pub fn config(&self) -> &Config {
            &self.config
        }
    }

    include!("sliced/config.rs");
    include!("sliced/util.rs");

    #[cfg(kani)]
    mod proofs {
        use super::*;
        include!("proofs.rs");
    }
}

/// Second sentence of C17 (in part): whatever statement reaches the query endpoint is prepared on a
/// connection that SQLite opened READ-ONLY.  Sliced: `sqlite_pool::Config::{new, read_only,
/// max_size}`, the body of `SplitPool::create`, `SplitPool::{read, read_blocking, dedicated,
/// client_dedicated, client_dedicated_readonly}` and the statements of `build_query_rows_response`
/// from the connection acquisition to the `readonly()` gate.  Host: rusqlite's `OpenFlags` with
/// the C constants of sqlite3.h, a pool that hands out connections opened with its config's flags.
pub mod ro {
    use std::path::{Path, PathBuf};
    use std::sync::Arc;
    use std::time::Duration;
    pub use venv::{debug, trace};

    /// rusqlite::OpenFlags (bitflags over sqlite3.h's SQLITE_OPEN_*), `Default` as in rusqlite 0.3x:
    /// READ_WRITE | CREATE | NO_MUTEX | URI
    #[derive(Clone, Copy, Debug, PartialEq, Eq)]
    pub struct OpenFlags(pub u32);
    #[allow(non_upper_case_globals)]
    impl OpenFlags {
        pub const SQLITE_OPEN_READ_ONLY: OpenFlags = OpenFlags(0x0000_0001);
        pub const SQLITE_OPEN_READ_WRITE: OpenFlags = OpenFlags(0x0000_0002);
        pub const SQLITE_OPEN_CREATE: OpenFlags = OpenFlags(0x0000_0004);
        pub const SQLITE_OPEN_URI: OpenFlags = OpenFlags(0x0000_0040);
        pub const SQLITE_OPEN_MEMORY: OpenFlags = OpenFlags(0x0000_0080);
        pub const SQLITE_OPEN_NO_MUTEX: OpenFlags = OpenFlags(0x0000_8000);
        pub const SQLITE_OPEN_FULL_MUTEX: OpenFlags = OpenFlags(0x0001_0000);
        pub const SQLITE_OPEN_SHARED_CACHE: OpenFlags = OpenFlags(0x0002_0000);
        pub const SQLITE_OPEN_PRIVATE_CACHE: OpenFlags = OpenFlags(0x0004_0000);
        pub const SQLITE_OPEN_NOFOLLOW: OpenFlags = OpenFlags(0x0100_0000);
        pub const SQLITE_OPEN_EXRESCODE: OpenFlags = OpenFlags(0x0200_0000);
        pub const fn empty() -> Self {
            OpenFlags(0)
        }
        pub const fn contains(&self, o: OpenFlags) -> bool {
            self.0 & o.0 == o.0
        }
        pub const fn intersects(&self, o: OpenFlags) -> bool {
            self.0 & o.0 != 0
        }
        /// what SQLite does with these flags: writable unless opened READONLY without READWRITE
        pub fn opens_writable(&self) -> bool {
            self.intersects(OpenFlags::SQLITE_OPEN_READ_WRITE) || self.intersects(OpenFlags::SQLITE_OPEN_CREATE) || !self.contains(OpenFlags::SQLITE_OPEN_READ_ONLY)
        }
    }
    impl Default for OpenFlags {
        fn default() -> Self {
            OpenFlags(0x2 | 0x4 | 0x8000 | 0x40)
        }
    }
    impl core::ops::BitOr for OpenFlags {
        type Output = OpenFlags;
        fn bitor(self, o: OpenFlags) -> OpenFlags {
            OpenFlags(self.0 | o.0)
        }
    }
    impl core::ops::BitOrAssign for OpenFlags {
        fn bitor_assign(&mut self, o: OpenFlags) {
            self.0 |= o.0
        }
    }
    impl core::ops::BitAnd for OpenFlags {
        type Output = OpenFlags;
        fn bitand(self, o: OpenFlags) -> OpenFlags {
            OpenFlags(self.0 & o.0)
        }
    }
    impl core::ops::Sub for OpenFlags {
        type Output = OpenFlags;
        fn sub(self, o: OpenFlags) -> OpenFlags {
            OpenFlags(self.0 & !o.0)
        }
    }
    impl core::ops::Not for OpenFlags {
        type Output = OpenFlags;
        fn not(self) -> OpenFlags {
            OpenFlags(!self.0 & 0x03ff_ffff)
        }
    }

    // deadpool's configuration records (only carried around)
    #[derive(Clone, Copy, Debug, Default)]
    pub struct Timeouts {
        pub wait: Option<Duration>,
        pub create: Option<Duration>,
        pub recycle: Option<Duration>,
    }
    #[derive(Clone, Copy, Debug, Default)]
    pub enum QueueMode {
        #[default]
        Fifo,
        Lifo,
    }
    #[derive(Clone, Copy, Debug, Default)]
    pub struct PoolConfig {
        pub max_size: usize,
        pub timeouts: Timeouts,
        pub queue_mode: QueueMode,
    }

    /// which connection a user statement was prepared on (the observation point of the harness)
    pub static mut PREPARED: u32 = 0;
    pub static mut PREPARED_ON_WRITABLE: u32 = 0;

    pub mod rusqlite {
        use super::*;
        #[derive(Debug)]
        pub struct Error;
        impl Error {
            pub fn to_string(&self) -> String {
                String::new()
            }
        }
        pub type Result<T> = core::result::Result<T, Error>;
        /// a database handle: all the harness needs to know is the flags it was opened with
        #[derive(Debug)]
        pub struct Connection {
            pub flags: OpenFlags,
        }
        pub struct Statement<'a> {
            pub conn: &'a Connection,
            pub readonly: bool,
        }
        impl Statement<'_> {
            /// sqlite3_stmt_readonly: arbitrary (a SELECT calling a writing function reports true)
            pub fn readonly(&self) -> bool {
                self.readonly
            }
        }
        impl Connection {
            pub fn open<P: AsRef<Path>>(_p: P) -> Result<Connection> {
                Ok(Connection { flags: OpenFlags::default() })
            }
            pub fn open_with_flags<P: AsRef<Path>>(_p: P, flags: OpenFlags) -> Result<Connection> {
                Ok(Connection { flags })
            }
            pub fn prepare(&self, _sql: &str) -> Result<Statement<'_>> {
                unsafe {
                    PREPARED += 1;
                    if self.flags.opens_writable() {
                        PREPARED_ON_WRITABLE += 1;
                    }
                }
                if kani_any_bool() { Ok(Statement { conn: self, readonly: kani_any_bool() }) } else { Err(Error) }
            }
        }
    }
    pub use rusqlite::Connection;

    #[cfg(kani)]
    pub fn kani_any_bool() -> bool {
        kani::any()
    }
    #[cfg(not(kani))]
    pub fn kani_any_bool() -> bool {
        true
    }

    /// klukai's cr-sqlite connection wrapper
    #[derive(Debug)]
    pub struct CrConn(pub Connection);
    impl core::ops::Deref for CrConn {
        type Target = Connection;
        fn deref(&self) -> &Connection {
            &self.0
        }
    }
    pub fn rusqlite_to_crsqlite(conn: Connection) -> rusqlite::Result<CrConn> {
        Ok(CrConn(conn))
    }
    pub fn rusqlite_to_crsqlite_write(conn: Connection) -> rusqlite::Result<CrConn> {
        Ok(CrConn(conn))
    }
    pub fn setup_conn(_c: &Connection) -> rusqlite::Result<()> {
        Ok(())
    }

    #[derive(Debug)]
    pub struct SqlitePoolError;
    impl SqlitePoolError {
        pub fn to_string(&self) -> String {
            String::new()
        }
    }
    #[derive(Debug)]
    pub struct SplitPoolCreateError;
    impl From<sqlite_pool::CreatePoolError> for SplitPoolCreateError {
        fn from(_: sqlite_pool::CreatePoolError) -> Self {
            SplitPoolCreateError
        }
    }

    pub mod sqlite_pool {
        use super::*;
        #[derive(Debug)]
        pub struct CreatePoolError;
        /// a pool opens every connection with its configuration's flags (Manager::create:
        /// `rusqlite::Connection::open_with_flags(&config.path, config.open_flags)` + transform)
        pub struct Pool<T> {
            pub open_flags: OpenFlags,
            pub max_size: usize,
            pub transform: fn(super::Connection) -> rusqlite::Result<T>,
        }
        pub struct Connection2<T>(pub T);
        pub type Connection<T> = Connection2<T>;
        impl<T> core::ops::Deref for Connection2<T> {
            type Target = T;
            fn deref(&self) -> &T {
                &self.0
            }
        }
        impl<T> Pool<T> {
            pub async fn get(&self) -> Result<Connection2<T>, SqlitePoolError> {
                if kani_any_bool() {
                    match (self.transform)(super::Connection { flags: self.open_flags }) {
                        Ok(c) => Ok(Connection2(c)),
                        Err(_) => Err(SqlitePoolError),
                    }
                } else {
                    Err(SqlitePoolError)
                }
            }
        }
        include!("sliced/poolcfg.rs");
        impl Config {
            pub fn create_pool_transform<T>(&self, f: fn(super::Connection) -> rusqlite::Result<T>) -> Result<Pool<T>, CreatePoolError> {
                Ok(Pool { open_flags: self.open_flags, max_size: self.pool.max_size, transform: f })
            }
        }
    }
    pub type SqlitePool = sqlite_pool::Pool<CrConn>;

    pub struct Semaphore;
    pub struct Handle;
    impl Handle {
        pub fn current() -> Handle {
            Handle
        }
        pub fn block_on<F: core::future::Future>(&self, f: F) -> F::Output {
            venv::task::block_on(f)
        }
    }
    pub struct SplitPoolInner {
        pub path: PathBuf,
        pub write_sema: Arc<Semaphore>,
        pub read: SqlitePool,
        pub write: SqlitePool,
    }
    pub struct SplitPool(pub Arc<SplitPoolInner>);
    impl SplitPool {
        fn new(path: PathBuf, write_sema: Arc<Semaphore>, read: SqlitePool, write: SqlitePool) -> Self {
            SplitPool(Arc::new(SplitPoolInner { path, write_sema, read, write }))
        }
    }
    include!("sliced/splitpool.rs");
    include!("sliced/splitpool_methods.rs");

    // --- the query endpoint ------------------------------------------------------------------
    #[derive(Debug, Clone, Copy, PartialEq, Eq)]
    #[allow(non_camel_case_types)]
    pub enum StatusCode {
        INTERNAL_SERVER_ERROR,
        BAD_REQUEST,
    }
    pub enum ExecResult {
        Error { error: String },
    }
    pub struct Statement(pub String);
    impl Statement {
        pub fn query(&self) -> &str {
            &self.0
        }
    }
    pub struct SocketAddr;
    pub mod oneshot {
        pub struct Sender<T>(pub core::marker::PhantomData<T>);
        impl<T> Sender<T> {
            pub fn send(self, v: T) -> Result<(), T> {
                core::mem::forget(v);
                Ok(())
            }
        }
    }
    pub fn block_in_place<R>(f: impl FnOnce() -> R) -> R {
        f()
    }
    include!("sliced/queries.rs");

    #[cfg(kani)]
    mod proofs {
        use super::*;
        include!("proofs_ro.rs");
    }
}
