//! C17 — the HTTP API enforces its token (middleware decision).
//! Sliced: the decision statements of require_authz and AuthzConfig.
#![allow(unused_imports, dead_code, unused_variables, unused_mut, clippy::all)]

pub mod host {
    /// `TypedHeader<Authorization<Bearer>>` as the extractor delivers it: present only when the
    /// request carried `Authorization: Bearer <token>` (parsing is the `headers` crate's job)
    pub struct TypedHeader<T>(pub T);
    pub struct Authorization<T>(pub T);
    pub struct Bearer {
        pub token: String,
    }
    impl Authorization<Bearer> {
        pub fn token(&self) -> &str {
            &self.0.token
        }
    }
    impl<T> core::ops::Deref for TypedHeader<T> {
        type Target = T;
        fn deref(&self) -> &T {
            &self.0
        }
    }
    pub mod axum {
        pub mod http {
            #[derive(Debug, Clone, Copy, PartialEq, Eq)]
            pub enum StatusCode {
                UNAUTHORIZED,
            }
        }
    }
    pub struct ApiConfig {
        pub authorization: Option<AuthzConfig>,
    }
    pub struct Config {
        pub api: ApiConfig,
    }
    pub struct Agent {
        pub config: Config,
    }
    impl Agent {
        pub fn config(&self) -> &Config {
            &self.config
        }
    }

    include!("sliced/config.rs");
    include!("sliced/util.rs");

    #[cfg(kani)]
    mod proofs {
        use super::*;
        include!("proofs.rs");
    }
}
