//! C14 — row-level update notifications reflect every changed key and its final fate (in part).
//! Sliced: the candidate-receiving arm of batch_candidates' select! (causal-length cache),
//! handle_candidates (cl parity → Update / Delete), the local consts of batch_candidates.
#![allow(unused_imports, dead_code, unused_variables, unused_mut, clippy::all)]

pub mod host {
    use std::time::Duration;
    use venv::collections::index_map::Entry;
    use venv::collections::{IndexMap, Vec};
    use venv::{debug, error, info, trace, warn};
    /// mpsc::Sender<NotifyEvent> handed over BY VALUE in the repository (a clone of the channel
    /// handle): the stand-in records into a static log
    pub mod mpsc {
        use super::{ChangeType, NotifyEvent};
        pub static mut LOG: [Option<(u8, ChangeType)>; 4] = [None; 4];
        pub static mut LOG_N: usize = 0;
        #[derive(Debug)]
        pub struct SendError;
        impl core::fmt::Display for SendError {
            fn fmt(&self, _f: &mut core::fmt::Formatter<'_>) -> core::fmt::Result {
                Ok(())
            }
        }
        pub struct Sender<T>(pub core::marker::PhantomData<T>);
        impl Sender<NotifyEvent> {
            pub fn blocking_send(&self, e: NotifyEvent) -> Result<(), SendError> {
                match e {
                    NotifyEvent::Notify(ty, cols) => unsafe {
                        assert!(cols.len() == 1 && LOG_N < 4);
                        LOG[LOG_N] = Some((cols[0].0, ty));
                        LOG_N += 1;
                    },
                }
                Ok(())
            }
        }
    }

    #[derive(Debug, Default, Clone, Copy, PartialEq, Eq, PartialOrd, Ord, Hash)]
    pub struct TableName(pub u8);
    /// packed primary key: opaque here (its codec is C09's subject)
    #[derive(Debug, Default, Clone, Copy, PartialEq, Eq, PartialOrd, Ord, Hash)]
    pub struct Pk(pub u8);
    #[derive(Debug, Default, Clone, Copy, PartialEq, Eq)]
    pub struct Uuid(pub u8);
    pub type MatchCandidates = IndexMap<TableName, IndexMap<Pk, i64>>;

    #[derive(Debug, Clone, Copy, PartialEq)]
    pub struct SqliteValue(pub u8);
    #[derive(Debug, Clone, Copy, PartialEq)]
    pub struct SqliteValueRef(pub u8);
    impl SqliteValueRef {
        pub fn to_owned(&self) -> SqliteValue {
            SqliteValue(self.0)
        }
    }
    #[derive(Debug)]
    pub struct UnpackError;
    /// stand-in for pubsub::unpack_columns: a key unpacks to one column holding its identity
    pub fn unpack_columns(pk: &Pk) -> Result<Vec<SqliteValueRef>, UnpackError> {
        let mut v = Vec::new();
        v.push(SqliteValueRef(pk.0));
        Ok(v)
    }
    #[derive(Debug, Clone, Copy, PartialEq, Eq)]
    pub enum ChangeType {
        Insert,
        Update,
        Delete,
    }
    #[derive(Debug, Clone, PartialEq)]
    pub enum NotifyEvent {
        Notify(ChangeType, Vec<SqliteValue>),
    }
    #[derive(Debug)]
    pub enum MatcherError {
        EventReceiverClosed,
        Unpack,
    }
    impl From<UnpackError> for MatcherError {
        fn from(_: UnpackError) -> Self {
            MatcherError::Unpack
        }
    }

    include!("sliced/updates.rs");

    /// the same select! arm once more, hosted with SMALL cache limits (configuration constants of
    /// batch_candidates: 2000 / 1000 in the repository) so that the trim is within reach
    pub mod small_cache {
        use super::*;
        pub const PROCESS_CHANGES_THRESHOLD: usize = 1000;
        pub const MAX_CACHE_ENTRIES: usize = 2;
        pub const KEEP_CACHE_ENTRIES: usize = 1;
        include!("sliced/arm_only.rs");
    }

    #[cfg(kani)]
    mod proofs {
        use super::*;
        include!("proofs.rs");
    }
}
