// Bounds: one table, keys p and q, causal lengths 1..=6, 3 candidate batches of <= 2 entries,
// a flush (handle_candidates on the buffered candidates) may happen after any batch.
const T: TableName = TableName(1);
const P: Pk = Pk(10);
const Q: Pk = Pk(20);

/// what the listener saw last for a key: None = nothing yet
#[derive(Clone, Copy, PartialEq)]
struct Seen {
    last: Option<ChangeType>,
    count: usize,
}

fn flush(buf: &mut MatchCandidates, seen: &mut [Seen; 2]) {
    unsafe {
        mpsc::LOG_N = 0;
    }
    let taken = core::mem::take(buf);
    let r = handle_candidates(mpsc::Sender(core::marker::PhantomData), taken);
    assert!(r.is_ok(), "C14: notifying failed with an open receiver");
    let n = unsafe { mpsc::LOG_N };
    let mut i = 0;
    while i < 4 {
        if i < n {
            match unsafe { mpsc::LOG[i] } {
                Some((key, ty)) => {
                    assert!(key == P.0 || key == Q.0, "C14: notification for an unknown key");
                    let k = if key == P.0 { 0 } else { 1 };
                    seen[k].last = Some(ty);
                    seen[k].count += 1;
                }
                None => {
                    assert!(false)
                }
            }
        }
        i += 1;
    }
}

/// Offer step (inductive).  Invariant K: a key that is buffered for notification is buffered with
/// the highest causal length accepted so far (= its cache entry).  From ANY state satisfying K,
/// offering (key, cl): accepted ⟺ cl >= cached (or nothing cached); when accepted both the cache
/// and the buffered value become cl; when refused nothing changes.  Hence the buffered value per
/// key is always the maximum offered so far, whatever the arrival order.
#[kani::proof]
#[kani::unwind(4)]
fn c14_offer_keeps_highest_causal_length() {
    let cached: Option<i64> = if kani::any() { Some(kani::any()) } else { None };
    let buffered: bool = kani::any();
    kani::assume(!buffered || cached.is_some());
    let mut cl_cache: IndexMap<(TableName, Pk), i64> = IndexMap::new();
    let mut buf = MatchCandidates::new();
    let mut buf_count = 0usize;
    if let Some(c) = cached {
        kani::assume(c >= 1);
        cl_cache.insert((T, P), c);
        if buffered {
            let mut inner: IndexMap<Pk, i64> = IndexMap::new();
            inner.insert(P, c);
            buf.insert(T, inner);
            buf_count = 1;
        }
    }
    // unrelated key already buffered: must stay untouched
    let other: bool = kani::any();
    let other_cl: i64 = kani::any();
    if other {
        cl_cache.insert((T, Q), other_cl);
        buf.entry(T).or_default().insert(Q, other_cl);
        buf_count += 1;
    }
    let cl: i64 = kani::any();
    kani::assume(cl >= 1);
    let mut inner: IndexMap<Pk, i64> = IndexMap::new();
    inner.insert(P, cl);
    let mut candidates = MatchCandidates::new();
    candidates.insert(T, inner);
    let (n, _process, cache) = on_candidates(candidates, &mut buf, cl_cache, buf_count, false, Uuid(0));

    let accept = match cached {
        None => true,
        Some(c) => cl >= c,
    };
    let now_cached = cache.get(&(T, P)).copied();
    let now_buffered = buf.get(&T).and_then(|m| m.get(&P)).copied();
    if accept {
        assert!(now_cached == Some(cl), "C14: accepted causal length not cached");
        assert!(now_buffered == Some(cl), "C14: a newer state of a key was not queued for notification");
    } else {
        assert!(now_cached == cached, "C14: an older causal length overwrote a newer one");
        assert!(now_buffered == (if buffered { cached } else { None }), "C14: an older state of a key was queued for notification after a newer one");
    }
    if other {
        assert!(cache.get(&(T, Q)).copied() == Some(other_cl) && buf.get(&T).and_then(|m| m.get(&Q)).copied() == Some(other_cl), "C14: an unrelated key was disturbed");
    }
    kani::cover!(accept && cached.is_some(), "newer state replaces an older one");
    kani::cover!(!accept, "older state refused");
    core::mem::forget((buf, cache));
}

/// Flush step: every buffered key is notified exactly once, as 'deleted' exactly when its
/// (highest) causal length is even.
#[kani::proof]
#[kani::unwind(6)]
fn c14_flush_notifies_each_key_with_its_fate() {
    let (cp, cq): (i64, i64) = (kani::any(), kani::any());
    kani::assume(cp >= 1 && cq >= 1);
    let two: bool = kani::any();
    let mut inner: IndexMap<Pk, i64> = IndexMap::new();
    inner.insert(P, cp);
    if two {
        inner.insert(Q, cq);
    }
    let mut buf = MatchCandidates::new();
    buf.insert(T, inner);
    let mut seen = [Seen { last: None, count: 0 }; 2];
    flush(&mut buf, &mut seen);
    assert!(seen[0].count == 1 && seen[0].last == Some(if cp % 2 == 0 { ChangeType::Delete } else { ChangeType::Update }), "C14: notification does not tell the key's fate (deleted ⟺ causal length even)");
    if two {
        assert!(seen[1].count == 1 && seen[1].last == Some(if cq % 2 == 0 { ChangeType::Delete } else { ChangeType::Update }), "C14: notification does not tell the key's fate (deleted ⟺ causal length even)");
    } else {
        assert!(seen[1].count == 0, "C14: notification for a key that did not change");
    }
    assert!(buf.is_empty());
    core::mem::forget(buf);
}
