// Bounds: one table, keys p and q, causal lengths 1..=6, 3 candidate batches of <= 2 entries,
// a flush (handle_candidates on the buffered candidates) may happen after any batch.
const T: TableName = TableName(1);
const P: Pk = Pk(10);
const Q: Pk = Pk(20);

/// what the listener saw last for a key: None = nothing yet
#[derive(Clone, Copy, PartialEq)]
struct Seen {
    last: Option<ChangeType>,
    count: usize,
}

fn flush(buf: &mut MatchCandidates, seen: &mut [Seen; 2]) {
    unsafe {
        mpsc::LOG_N = 0;
    }
    let taken = core::mem::take(buf);
    let r = handle_candidates(mpsc::Sender(core::marker::PhantomData), taken);
    assert!(r.is_ok(), "C14: notifying failed with an open receiver");
    let n = unsafe { mpsc::LOG_N };
    let mut i = 0;
    while i < 4 {
        if i < n {
            match unsafe { mpsc::LOG[i] } {
                Some((key, ty)) => {
                    assert!(key == P.0 || key == Q.0, "C14: notification for an unknown key");
                    let k = if key == P.0 { 0 } else { 1 };
                    seen[k].last = Some(ty);
                    seen[k].count += 1;
                }
                None => {
                    assert!(false)
                }
            }
        }
        i += 1;
    }
}

/// Offer step (inductive).  Invariant K: a key that is buffered for notification is buffered with
/// the highest causal length accepted so far (= its cache entry).  From ANY state satisfying K,
/// offering (key, cl): accepted ⟺ cl >= cached (or nothing cached); when accepted both the cache
/// and the buffered value become cl; when refused nothing changes.  Hence the buffered value per
/// key is always the maximum offered so far, whatever the arrival order.
#[kani::proof]
#[kani::unwind(4)]
fn c14_offer_keeps_highest_causal_length() {
    let cached: Option<i64> = if kani::any() { Some(kani::any()) } else { None };
    let buffered: bool = kani::any();
    kani::assume(!buffered || cached.is_some());
    let mut cl_cache: IndexMap<(TableName, Pk), i64> = IndexMap::new();
    let mut buf = MatchCandidates::new();
    let mut buf_count = 0usize;
    if let Some(c) = cached {
        kani::assume(c >= 1);
        cl_cache.insert((T, P), c);
        if buffered {
            let mut inner: IndexMap<Pk, i64> = IndexMap::new();
            inner.insert(P, c);
            buf.insert(T, inner);
            buf_count = 1;
        }
    }
    // unrelated key already buffered: must stay untouched
    let other: bool = kani::any();
    let other_cl: i64 = kani::any();
    if other {
        cl_cache.insert((T, Q), other_cl);
        buf.entry(T).or_default().insert(Q, other_cl);
        buf_count += 1;
    }
    let cl: i64 = kani::any();
    kani::assume(cl >= 1);
    let mut inner: IndexMap<Pk, i64> = IndexMap::new();
    inner.insert(P, cl);
    let mut candidates = MatchCandidates::new();
    candidates.insert(T, inner);
    let (n, _process, cache) = on_candidates(candidates, &mut buf, cl_cache, buf_count, false, Uuid(0));

    let accept = match cached {
        None => true,
        Some(c) => cl >= c,
    };
    let now_cached = cache.get(&(T, P)).copied();
    let now_buffered = buf.get(&T).and_then(|m| m.get(&P)).copied();
    if accept {
        assert!(now_cached == Some(cl), "C14: accepted causal length not cached");
        assert!(now_buffered == Some(cl), "C14: a newer state of a key was not queued for notification");
    } else {
        assert!(now_cached == cached, "C14: an older causal length overwrote a newer one");
        assert!(now_buffered == (if buffered { cached } else { None }), "C14: an older state of a key was queued for notification after a newer one");
    }
    if other {
        assert!(cache.get(&(T, Q)).copied() == Some(other_cl) && buf.get(&T).and_then(|m| m.get(&Q)).copied() == Some(other_cl), "C14: an unrelated key was disturbed");
    }
    kani::cover!(accept && cached.is_some(), "newer state replaces an older one");
    kani::cover!(!accept, "older state refused");
    core::mem::forget((buf, cache));
}

/// Flush step: every buffered key is notified exactly once, as 'deleted' exactly when its
/// (highest) causal length is even.
#[kani::proof]
#[kani::unwind(6)]
fn c14_flush_notifies_each_key_with_its_fate() {
    let (cp, cq): (i64, i64) = (kani::any(), kani::any());
    kani::assume(cp >= 1 && cq >= 1);
    let two: bool = kani::any();
    let mut inner: IndexMap<Pk, i64> = IndexMap::new();
    inner.insert(P, cp);
    if two {
        inner.insert(Q, cq);
    }
    let mut buf = MatchCandidates::new();
    buf.insert(T, inner);
    let mut seen = [Seen { last: None, count: 0 }; 2];
    flush(&mut buf, &mut seen);
    assert!(seen[0].count == 1 && seen[0].last == Some(if cp % 2 == 0 { ChangeType::Delete } else { ChangeType::Update }), "C14: notification does not tell the key's fate (deleted ⟺ causal length even)");
    if two {
        assert!(seen[1].count == 1 && seen[1].last == Some(if cq % 2 == 0 { ChangeType::Delete } else { ChangeType::Update }), "C14: notification does not tell the key's fate (deleted ⟺ causal length even)");
    } else {
        assert!(seen[1].count == 0, "C14: notification for a key that did not change");
    }
    assert!(buf.is_empty());
    core::mem::forget(buf);
}

/// Cache trim.  When the causal-length cache outgrows its limit it is cut down — and what must
/// survive the cut are the keys seen most recently (here: the key of the very batch that caused
/// the overflow): otherwise an older state of a key changed in quick succession is notified after
/// a newer one.  Hosted with limits 2 / 1 instead of 2000 / 1000.
#[kani::proof]
#[kani::unwind(5)]
fn c14_cache_trim_keeps_the_most_recent_keys() {
    const X: Pk = Pk(30);
    const Y: Pk = Pk(40);
    let (cx, cy, cp): (i64, i64, i64) = (kani::any(), kani::any(), kani::any());
    kani::assume(cx >= 1 && cy >= 1 && cp >= 1);
    let mut cl_cache: IndexMap<(TableName, Pk), i64> = IndexMap::new();
    cl_cache.insert((T, X), cx);
    cl_cache.insert((T, Y), cy);
    let mut buf = MatchCandidates::new();
    let mut inner: IndexMap<Pk, i64> = IndexMap::new();
    inner.insert(P, cp);
    let mut candidates = MatchCandidates::new();
    candidates.insert(T, inner);
    let (_count, _process, cache) = small_cache::on_candidates(candidates, &mut buf, cl_cache, 0, false, Uuid(0));
    assert!(cache.len() <= small_cache::MAX_CACHE_ENTRIES, "C14: the cache was not trimmed");
    assert!(cache.get(&(T, P)) == Some(&cp), "C14: the cache trim dropped the key that was just notified (a stale candidate for it would now be delivered after the newer one)");
    // and a stale candidate for that key is still refused afterwards
    let stale: i64 = kani::any();
    kani::assume(stale >= 1 && stale < cp);
    let mut inner2: IndexMap<Pk, i64> = IndexMap::new();
    inner2.insert(P, stale);
    let mut again = MatchCandidates::new();
    again.insert(T, inner2);
    let mut buf2 = MatchCandidates::new();
    let (count2, _, cache2) = small_cache::on_candidates(again, &mut buf2, cache, 0, false, Uuid(0));
    assert!(count2 == 0 && buf2.get(&T).map(|m| m.get(&P).is_none()).unwrap_or(true), "C14: an older state of a key is buffered for notification after a newer one");
    kani::cover!(true, "trim exercised");
    core::mem::forget((buf, buf2, cache2));
}
