//! C16 — nodes of different clusters never exchange data.
//! Sliced: the cluster comparison of the uni-stream handler, serve_sync's cluster gate, the sync
//! candidate filter, the broadcast target filter, the derived UniPayload / BiPayload codecs
//! (`default_on_eof` cluster id), ClusterId's codec.
#![allow(unused_imports, dead_code, unused_variables, unused_mut, clippy::all)]

pub mod host {
    use speedy::{Context, Readable, Reader, Writable, Writer};
    use std::cell::Cell;
    use std::collections::HashSet as StdHashSet;
    use uuid::Uuid;
    use venv::collections::HashSet;
    use venv::{debug, error, trace, warn};

    #[derive(Debug, Clone, Copy, PartialEq, Eq, PartialOrd, Ord, Hash)]
    pub struct SocketAddr(pub u8);
    #[derive(Debug, Default, Clone, Copy, Eq, PartialEq, Ord, PartialOrd, Hash)]
    pub struct Timestamp(pub u64);

    /// payload of a broadcast: opaque here (C09 covers its codec); one byte on the wire
    #[derive(Debug, Clone, PartialEq, Readable, Writable)]
    pub struct ChangeV1 {
        pub tag: u8,
    }
    #[derive(Debug, Default, Clone, PartialEq, Readable, Writable)]
    pub struct SyncTraceContextV1 {
        pub tag: u8,
    }

    // ---- serve_sync environment ----------------------------------------------------------------
    pub struct Agent {
        pub actor_id: ActorId,
        pub cluster_id: ClusterId,
    }
    impl Agent {
        pub fn actor_id(&self) -> ActorId {
            self.actor_id
        }
        pub fn cluster_id(&self) -> ClusterId {
            self.cluster_id
        }
    }
    pub struct LengthDelimitedCodec;
    pub struct BytesMut;
    /// what was written to the peer: (number of messages, last one was the DifferentCluster rejection)
    pub struct SendStream<'a>(pub &'a Cell<(usize, bool)>);
    #[derive(Debug)]
    pub struct SyncError;
    #[derive(Debug)]
    pub struct SyncSendError;
    impl From<SyncSendError> for SyncError {
        fn from(_: SyncSendError) -> Self {
            SyncError
        }
    }
    #[derive(Debug, Clone, PartialEq)]
    pub enum SyncMessage {
        V1(SyncMessageV1),
    }
    #[derive(Debug, Clone, PartialEq)]
    pub enum SyncMessageV1 {
        Rejection(SyncRejectionV1),
        Other,
    }
    pub async fn encode_write_sync_msg(
        _codec: &mut LengthDelimitedCodec,
        _encode_buf: &mut BytesMut,
        _send_buf: &mut BytesMut,
        msg: SyncMessage,
        write: &mut SendStream<'_>,
    ) -> Result<(), SyncSendError> {
        let (n, _) = write.0.get();
        let is_rej = matches!(msg, SyncMessage::V1(SyncMessageV1::Rejection(SyncRejectionV1::DifferentCluster)));
        write.0.set((n + 1, is_rej));
        Ok(())
    }
    pub trait Instrument: Sized {
        fn instrument(self, _span: ()) -> Self {
            self
        }
    }
    impl<F: core::future::Future> Instrument for F {}
    macro_rules! info_span {
        ($($t:tt)*) => {
            ()
        };
    }
    pub struct PendingBroadcast {
        pub is_local: bool,
        pub sent_to: HashSet<SocketAddr>,
    }

    include!("sliced/actor.rs");
    include!("sliced/broadcast.rs");
    include!("sliced/sync.rs");
    include!("sliced/members.rs");
    include!("sliced/peer.rs");
    include!("sliced/handlers.rs");
    include!("sliced/bcast.rs");

    /// the per-stream frame loop of the uni handler, hosted with its own imports: frames arrive
    /// already split (LengthDelimitedCodec is environment) and `read_from_buffer` hands back the
    /// payload the frame carries (the real speedy decode of these frames is checked by the
    /// *_frame_cluster_id_* harnesses)
    pub mod unistream {
        use super::{BroadcastV1, ChangeSource, ChangeV1, ClusterId, UniPayload, UniPayloadV1};
        use venv::avec as vec;
        use venv::collections::Vec;
        use venv::{counter, error, trace};
        #[derive(Clone, Copy)]
        pub struct Frame {
            pub decodes: bool,
            pub tag: u8,
            pub cluster: u16,
        }
        impl Frame {
            pub fn len(&self) -> usize {
                7
            }
        }
        #[derive(Debug)]
        pub struct DecodeError;
        impl core::fmt::Display for DecodeError {
            fn fmt(&self, _f: &mut core::fmt::Formatter<'_>) -> core::fmt::Result {
                Ok(())
            }
        }
        pub trait FrameDecode: Sized {
            fn read_from_buffer(b: &Frame) -> Result<Self, DecodeError>;
        }
        impl FrameDecode for UniPayload {
            fn read_from_buffer(b: &Frame) -> Result<Self, DecodeError> {
                if b.decodes {
                    Ok(UniPayload::V1 { data: UniPayloadV1::Broadcast(BroadcastV1::Change(ChangeV1 { tag: b.tag })), cluster_id: ClusterId(b.cluster) })
                } else {
                    Err(DecodeError)
                }
            }
        }
        /// FramedRead<RecvStream, LengthDelimitedCodec>: a finite sequence of frames / io errors
        pub struct Framed {
            pub items: [Option<Result<Frame, DecodeError>>; 3],
            pub next: usize,
        }
        pub struct StreamExt;
        impl StreamExt {
            pub async fn next(f: &mut Framed) -> Option<Result<Frame, DecodeError>> {
                if f.next < 3 {
                    let i = f.next;
                    f.next += 1;
                    f.items[i].take()
                } else {
                    None
                }
            }
        }
        include!("sliced/unistream.rs");
    }

    #[cfg(kani)]
    mod proofs {
        use super::*;
        include!("proofs.rs");
    }
}
