type LE = speedy::LittleEndian;
fn stub_format(_args: core::fmt::Arguments<'_>) -> String {
    String::new()
}
fn actor(b: u8) -> ActorId {
    ActorId(Uuid::from_bytes([b; 16]))
}

/// a frame that ends before the cluster field decodes with cluster id 0 (older peers), and a
/// frame that carries it decodes to exactly that id
#[kani::proof]
#[kani::unwind(6)]
#[kani::stub(alloc::fmt::format, stub_format)]
fn c16_uni_frame_cluster_id_default_and_roundtrip() {
    let cid: u16 = kani::any();
    let tag: u8 = kani::any();
    let p = UniPayload::V1 { data: UniPayloadV1::Broadcast(BroadcastV1::Change(ChangeV1 { tag })), cluster_id: ClusterId(cid) };
    let bytes = <UniPayload as Writable<LE>>::write_to_vec(&p).unwrap();
    assert!(bytes.len() == 4 + 4 + 4 + 1 + 2);
    match <UniPayload as Readable<LE>>::read_from_buffer(&bytes) {
        Ok(UniPayload::V1 { cluster_id, .. }) => {
            assert!(cluster_id.0 == cid, "C16: cluster id does not round-trip on the broadcast frame")
        }
        Err(_) => {
            assert!(false, "C16: frame does not decode")
        }
    }
    // the same frame without the trailing cluster field (what a pre-cluster peer sends)
    match <UniPayload as Readable<LE>>::read_from_buffer(&bytes[..bytes.len() - 2]) {
        Ok(UniPayload::V1 { cluster_id, .. }) => {
            assert!(cluster_id.0 == 0, "C16: absent cluster id must default to 0")
        }
        Err(_) => {
            assert!(false, "C16: frame without cluster id does not decode")
        }
    }
    core::mem::forget(bytes);
}
#[kani::proof]
#[kani::unwind(6)]
#[kani::stub(alloc::fmt::format, stub_format)]
fn c16_bi_frame_cluster_id_default_and_roundtrip() {
    let cid: u16 = kani::any();
    let p = BiPayload::V1 { data: BiPayloadV1::SyncStart { actor_id: actor(kani::any()), trace_ctx: SyncTraceContextV1 { tag: kani::any() } }, cluster_id: ClusterId(cid) };
    let bytes = <BiPayload as Writable<LE>>::write_to_vec(&p).unwrap();
    match <BiPayload as Readable<LE>>::read_from_buffer(&bytes) {
        Ok(BiPayload::V1 { cluster_id, .. }) => {
            assert!(cluster_id.0 == cid, "C16: cluster id does not round-trip on the sync-start frame")
        }
        Err(_) => {
            assert!(false, "C16: frame does not decode")
        }
    }
    match <BiPayload as Readable<LE>>::read_from_buffer(&bytes[..bytes.len() - 2]) {
        Ok(BiPayload::V1 { cluster_id, .. }) => {
            assert!(cluster_id.0 == 0, "C16: absent cluster id must default to 0")
        }
        Err(_) => {
            assert!(false, "C16: frame without cluster id does not decode")
        }
    }
    core::mem::forget(bytes);
}

/// sync server: a session from another cluster gets exactly one message, the DifferentCluster
/// rejection, and the function returns before anything else; a same-cluster session passes the gate
#[kani::proof]
#[kani::unwind(4)]
fn c16_serve_sync_rejects_other_cluster() {
    let ours = ClusterId(kani::any());
    let theirs = ClusterId(kani::any());
    let agent = Agent { actor_id: actor(1), cluster_id: ours };
    let wire = Cell::new((0usize, false));
    let r = venv::task::block_on(serve_sync_cluster_gate(&agent, theirs, LengthDelimitedCodec, BytesMut, BytesMut, SendStream(&wire)));
    let (n, last_is_rejection) = wire.get();
    if ours.0 != theirs.0 {
        assert!(matches!(r, Ok(0)), "C16: a session from another cluster was not ended");
        assert!(n == 1 && last_is_rejection, "C16: a session from another cluster must be answered with exactly the DifferentCluster rejection");
    } else {
        assert!(matches!(r, Ok(usize::MAX)) && n == 0, "C16: a same-cluster session was rejected");
    }
}

/// sync partners and broadcast targets are same-cluster members other than ourselves
#[kani::proof]
#[kani::unwind(18)]
fn c16_sync_partners_and_broadcast_targets_same_cluster() {
    let me = actor(1);
    let agent = Agent { actor_id: me, cluster_id: ClusterId(kani::any()) };
    let id = actor(kani::any());
    let st = MemberState { addr: SocketAddr(kani::any()), ts: Timestamp(kani::any()), cluster_id: ClusterId(kani::any()), ring: None, last_sync_ts: None };
    let chosen = sync_candidate_filter(&agent, &(&id, &st));
    assert!(chosen == (id != me && st.cluster_id.0 == agent.cluster_id.0), "C16: sync candidate filter is not 'same cluster and not self'");

    let mut sent_to = HashSet::new();
    if kani::any() {
        sent_to.insert(SocketAddr(kani::any()));
    }
    let pending = PendingBroadcast { is_local: kani::any(), sent_to };
    let mut ring0 = HashSet::new();
    if kani::any() {
        ring0.insert(SocketAddr(kani::any()));
    }
    let target = broadcast_target_filter(&agent, me, &pending, &ring0, (&id, &st));
    if let Some(addr) = target {
        assert!(addr == st.addr);
        assert!(id != me && st.cluster_id.0 == agent.cluster_id.0, "C16: broadcast target of another cluster (or ourselves)");
    }
    // completeness: a fresh same-cluster member that was not served yet is a target
    if id != me && st.cluster_id.0 == agent.cluster_id.0 && !pending.sent_to.contains(&st.addr) && !(pending.is_local && ring0.contains(&st.addr)) {
        assert!(target == Some(st.addr), "C16: eligible same-cluster member is not a broadcast target");
    }
    kani::cover!(target.is_some(), "target chosen");
    kani::cover!(target.is_none() && id != me, "member of another cluster skipped");
    core::mem::forget((pending, ring0));
}

/// the whole per-stream loop of the broadcast receiver: for every stream of up to 3 frames (any
/// mix of frames declaring our cluster, another cluster, undecodable frames and io errors) the
/// changes forwarded are exactly those of the frames that declare OUR cluster — whatever came
/// before them on the same stream
#[kani::proof]
#[kani::unwind(5)]
fn c16_uni_stream_forwards_only_own_cluster_frames() {
    use unistream::{Frame, Framed};
    let ours = ClusterId(kani::any());
    let mut items: [Option<Result<Frame, unistream::DecodeError>>; 3] = [None, None, None];
    let n: usize = kani::any();
    kani::assume(n <= 3);
    let mut expect = [false; 3];
    let mut tags = [0u8; 3];
    let mut i = 0;
    while i < 3 {
        if i < n {
            if kani::any() {
                let f = Frame { decodes: kani::any(), tag: i as u8, cluster: kani::any() };
                expect[i] = f.decodes && f.cluster == ours.0;
                tags[i] = f.tag;
                items[i] = Some(Ok(f));
            } else {
                items[i] = Some(Err(unistream::DecodeError));
            }
        }
        i += 1;
    }
    let framed = Framed { items, next: 0 };
    let out = venv::task::block_on(unistream::uni_stream_frames(framed, ours));
    // forwarded = exactly the expected frames, in arrival order
    let mut k = 0;
    let mut j = 0;
    while j < 3 {
        if expect[j] {
            assert!(k < out.len(), "C16: a same-cluster broadcast frame was dropped");
            assert!(out[k].0.tag == tags[j], "C16: a broadcast frame of another cluster was forwarded for processing");
            k += 1;
        }
        j += 1;
    }
    assert!(out.len() == k, "C16: a broadcast frame of another cluster was forwarded for processing");
    kani::cover!(k >= 1 && n == 3 && !expect[1], "own-cluster frames around a foreign one");
    core::mem::forget(out);
}
