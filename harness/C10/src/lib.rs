//! C10 — load shedding and duplicate suppression never lose a change for good.
//! Sliced: the body of handle_changes' ingest loop after the select! (self filter, seen-cache
//! lookup, already-known check against bookkeeping, drop-oldest with cache eviction, seen
//! insertion, rebroadcast, enqueue), Changeset accessors, BookedVersions::contains_all.
#![allow(unused_imports, dead_code, unused_variables, unused_mut, clippy::all)]
#![feature(step_trait)]

pub mod host {
    use std::cell::Cell;
    use std::cmp;
    use std::iter::Step;
    use std::ops::{Add, Deref, RangeInclusive, Sub};
    use std::time::Duration;
    use venv::avec as vec;
    use venv::collections::index_map::Entry;
    use venv::collections::{btree_map, BTreeMap, HashMap, IndexMap, Vec, VecDeque};
    use venv::rangemap::{RangeInclusiveSet, StepLite};
    use venv::{assert_sometimes, counter, debug, error, gauge, histogram, info, trace, warn};

    // ---- environment stand-ins -------------------------------------------------------------
    #[derive(Debug, Default, Clone, Copy, Eq, PartialEq, Ord, PartialOrd, Hash)]
    pub struct ActorId(pub u8);
    impl ActorId {
        pub fn as_simple(&self) -> u8 {
            self.0
        }
    }
    impl core::fmt::Display for ActorId {
        fn fmt(&self, _f: &mut core::fmt::Formatter<'_>) -> core::fmt::Result {
            Ok(())
        }
    }
    /// NTP64-shaped time value: ordered, subtractable, convertible to a Duration
    #[derive(Debug, Default, Clone, Copy, Eq, PartialEq, Ord, PartialOrd, Hash)]
    pub struct NTP64(pub u64);
    impl Sub for NTP64 {
        type Output = NTP64;
        fn sub(self, rhs: NTP64) -> NTP64 {
            NTP64(self.0 - rhs.0)
        }
    }
    impl NTP64 {
        pub fn to_duration(self) -> Duration {
            Duration::from_secs(self.0 >> 32)
        }
    }
    #[derive(Debug, Default, Clone, Copy, Eq, PartialEq, Ord, PartialOrd, Hash)]
    pub struct Timestamp(pub NTP64);
    impl From<NTP64> for Timestamp {
        fn from(t: NTP64) -> Self {
            Timestamp(t)
        }
    }
    /// hybrid logical clock contract: timestamps strictly increase; after an accepted
    /// `update_with_timestamp(ts)` every later timestamp is greater than `ts`
    pub struct Clock {
        pub last: Cell<u64>,
    }
    impl Clock {
        pub fn new_timestamp(&self) -> NTP64 {
            let step = venv::nondet_u8() as u64;
            let t = self.last.get().saturating_add(1 + step);
            self.last.set(t);
            NTP64(t)
        }
    }
    pub struct Sender {
        pub sent: Cell<usize>,
        pub full: bool,
    }
    impl Sender {
        pub fn try_send<T>(&self, v: T) -> Result<(), ()> {
            core::mem::forget(v);
            if self.full {
                Err(())
            } else {
                self.sent.set(self.sent.get() + 1);
                Ok(())
            }
        }
    }
    pub enum BroadcastInput {
        Rebroadcast(BroadcastV1),
    }
    pub struct Agent {
        pub actor_id: ActorId,
        pub clock: Clock,
        pub tx_bcast: Sender,
        pub clock_update_fails: bool,
    }
    impl Agent {
        pub fn actor_id(&self) -> ActorId {
            self.actor_id
        }
        pub fn clock(&self) -> &Clock {
            &self.clock
        }
        pub fn tx_bcast(&self) -> &Sender {
            &self.tx_bcast
        }
        pub fn update_clock_with_timestamp(&self, _actor_id: ActorId, ts: Timestamp) -> Result<(), &'static str> {
            if self.clock_update_fails {
                return Err("delta too large");
            }
            if ts.0 .0 > self.clock.last.get() {
                self.clock.last.set(ts.0 .0);
            }
            Ok(())
        }
    }
    /// ABSTRACTION: what bookkeeping holds of one actor, as far as the ingest path asks: the
    /// set of versions it fully knows (`contains_all` itself is the subject of the C02 harnesses)
    #[derive(Clone, Copy)]
    pub struct BookedVersions {
        pub known: u32,
    }
    impl BookedVersions {
        pub fn contains_all(&self, mut versions: RangeInclusive<CrsqlDbVersion>, _seqs: Option<&RangeInclusive<CrsqlSeq>>) -> bool {
            versions.all(|v| v.0 < 32 && self.known & (1 << v.0) != 0)
        }
    }
    /// `Booked` / `Bookie`: lock wrappers whose guards are always immediately available
    #[derive(Clone)]
    pub struct Booked(pub BookedVersions);
    impl Booked {
        pub fn read<L, E>(&self, _label: L, _extra: E) -> &BookedVersions {
            &self.0
        }
    }
    pub struct Bookie {
        pub map: HashMap<ActorId, Booked>,
    }
    impl Bookie {
        pub fn read<L, E>(&self, _label: L, _extra: E) -> &HashMap<ActorId, Booked> {
            &self.map
        }
    }
    #[derive(Clone, Copy, Debug)]
    pub struct Instant;
    impl Instant {
        pub fn now() -> Self {
            Instant
        }
    }
    /// a change row: the ingest path never looks inside
    #[derive(Debug, Clone, Copy, PartialEq, Default)]
    pub struct Change;
    impl From<ChangeSource> for &'static str {
        fn from(s: ChangeSource) -> &'static str {
            match s {
                ChangeSource::Broadcast => "broadcast",
                ChangeSource::Sync => "sync",
            }
        }
    }

    include!("sliced/base.rs");
    include!("sliced/broadcast.rs");
    include!("sliced/util.rs");
    include!("sliced/handlers.rs");
    include!("sliced/parts.rs");

    macro_rules! step_like_repo {
        ($t:ident) => {
            impl Step for $t {
                fn steps_between(start: &Self, end: &Self) -> (usize, Option<usize>) {
                    u64::steps_between(&start.0, &end.0)
                }
                fn forward_checked(start: Self, count: usize) -> Option<Self> {
                    u64::forward_checked(start.0, count).map(Self)
                }
                fn backward_checked(start: Self, count: usize) -> Option<Self> {
                    u64::backward_checked(start.0, count).map(Self)
                }
                fn forward_overflowing(start: Self, count: usize) -> (Self, bool) {
                    let (v, o) = u64::forward_overflowing(start.0, count);
                    (Self(v), o)
                }
                fn backward_overflowing(start: Self, count: usize) -> (Self, bool) {
                    let (v, o) = u64::backward_overflowing(start.0, count);
                    (Self(v), o)
                }
            }
        };
    }
    step_like_repo!(CrsqlDbVersion);
    step_like_repo!(CrsqlSeq);

    #[cfg(kani)]
    mod proofs {
        use super::*;
        include!("proofs.rs");
    }
}
