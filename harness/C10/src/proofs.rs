// Bounds: actors SELF / A / B; versions 1..=2; sequences 0..=2; queue <= 2 entries,
// max_queue_len in 1..=2; at most one in-flight batch entry; bookkeeping per actor arbitrary.
const SELF: ActorId = ActorId(1);
const A: ActorId = ActorId(2);
const B: ActorId = ActorId(3);
const NV: u64 = 2;
const NS: u64 = 1;

fn bits(lo: u64, hi: u64) -> u32 {
    if lo > hi {
        0
    } else {
        (((1u64 << (hi + 1)) - 1) & !((1u64 << lo) - 1)) as u32
    }
}

/// a changeset, abstractly: who, which version(s), which sequences
#[derive(Clone, Copy)]
struct Cs {
    actor: ActorId,
    full: bool,
    v: u64,  // Full: the version; Empty: first version
    v2: u64, // Empty: last version
    s0: u64,
    s1: u64,
    last_seq: u64,
}
fn any_actor(allow_self: bool) -> ActorId {
    let k: u8 = kani::any();
    kani::assume(k < 3);
    match k {
        0 => A,
        1 => B,
        _ => {
            kani::assume(allow_self);
            SELF
        }
    }
}
fn any_cs(allow_self: bool) -> Cs {
    any_cs_upto(allow_self, NS)
}
/// `ns`: largest sequence number (the cache-lookup harness needs 0..=2: two cached ranges with a
/// hole between them, and an offer spanning the hole)
fn any_cs_upto(allow_self: bool, ns: u64) -> Cs {
    let full: bool = kani::any();
    let v: u64 = kani::any();
    let v2: u64 = kani::any();
    kani::assume(1 <= v && v <= NV && v <= v2 && v2 <= NV);
    let (s0, s1, last_seq): (u64, u64, u64) = (kani::any(), kani::any(), kani::any());
    kani::assume(s0 <= s1 && s1 <= last_seq && last_seq <= ns);
    // Empty changesets cover one version here (bound; keeps the seen cache within capacity)
    Cs { actor: any_actor(allow_self), full, v, v2: v, s0, s1, last_seq }
}
fn mk(c: &Cs) -> ChangeV1 {
    mk_tagged(c, kani::any())
}
/// `tag` rides in the timestamp field, which the ingest path only compares with the clock
fn mk_tagged(c: &Cs, tag: u64) -> ChangeV1 {
    let changeset = if c.full {
        let mut changes = Vec::new();
        changes.push(Change);
        Changeset::Full {
            version: CrsqlDbVersion(c.v),
            changes,
            seqs: CrsqlSeq(c.s0)..=CrsqlSeq(c.s1),
            last_seq: CrsqlSeq(c.last_seq),
            ts: Timestamp(NTP64(tag)),
        }
    } else {
        Changeset::Empty { versions: CrsqlDbVersion(c.v)..=CrsqlDbVersion(c.v2), ts: Some(Timestamp(NTP64(tag))) }
    };
    ChangeV1 { actor_id: c.actor, changeset }
}
/// does changeset c carry (actor, version, seq)?  (an Empty carries every seq of its versions)
fn cs_has(c: &Cs, actor: ActorId, v: u64, s: u64) -> bool {
    c.actor == actor && c.v <= v && v <= c.v2 && (!c.full || (c.s0 <= s && s <= c.s1))
}
fn record_seen(seen: &mut IndexMap<(ActorId, CrsqlDbVersion), RangeInclusiveSet<CrsqlSeq>>, c: &Cs) {
    // (sets are built by value and moved in: mutation through a pointer into the map costs the
    // solver ~25x more than the same work on a local)
    let mut v = c.v;
    while v <= c.v2 {
        let key = (c.actor, CrsqlDbVersion(v));
        let mut set = match seen.swap_remove(&key) {
            Some(s) => s,
            None => RangeInclusiveSet::new(),
        };
        if c.full {
            set.insert(CrsqlSeq(c.s0)..=CrsqlSeq(c.s1));
        }
        seen.insert(key, set);
        v += 1;
    }
}
/// does the seen cache suppress a re-offer of (actor, version, seq)?
/// (key present and, for a Full change, the seq recorded; an empty seq set = Empty marker)
fn seen_has(seen: &IndexMap<(ActorId, CrsqlDbVersion), RangeInclusiveSet<CrsqlSeq>>, actor: ActorId, v: u64, s: u64) -> Option<bool> {
    seen.get(&(actor, CrsqlDbVersion(v))).map(|set| set.contains(&CrsqlSeq(s)))
}

struct World {
    agent: Agent,
    bookie: Bookie,
    booked_mask: [u32; 2], // versions fully known per actor A, B (bit v)
}
fn any_world(with_bookkeeping: bool) -> World {
    let mut map = HashMap::new();
    let mut booked_mask = [0u32; 2];
    for (i, actor) in [A, B].into_iter().enumerate() {
        if with_bookkeeping && kani::any() {
            // arbitrary set of fully known versions
            let known: u32 = kani::any();
            kani::assume(known & !bits(1, NV) == 0);
            booked_mask[i] = known;
            map.insert(actor, Booked(BookedVersions { known }));
        }
    }
    World {
        agent: Agent {
            actor_id: SELF,
            clock: Clock { last: Cell::new(kani::any::<u32>() as u64) },
            tx_bcast: Sender { sent: Cell::new(0), full: kani::any() },
            clock_update_fails: kani::any(),
        },
        bookie: Bookie { map },
        booked_mask,
    }
}
fn booked(w: &World, actor: ActorId, v: u64) -> bool {
    let i = if actor == A { 0 } else { 1 };
    actor != SELF && w.booked_mask[i] & (1 << v) != 0
}

/// C10 inductive step.  Invariant J: whatever the seen cache would suppress is still on its way
/// (queued or in flight) or already booked.  From ANY state satisfying J, offering ANY changeset
/// (a) keeps J — in particular an entry evicted because the queue is full is forgotten by the
/// cache, whoever authored it — and (b) the offered changeset is queued unless it was
/// self-authored, suppressed by the cache, or already booked; (c) the cost counter stays the sum
/// of the queued costs.
fn ingest_step_keeps_j(qn: usize, max_queue_len: usize, with_bookkeeping: bool, with_inflight: bool) {
    let w = any_world(with_bookkeeping);
    let q = [any_cs(false), any_cs(false)];
    // one changeset already handed to a processing batch (in flight), maybe
    let has_inflight: bool = with_inflight && kani::any();
    let inflight = any_cs(false);

    let mut queue: VecDeque<(ChangeV1, ChangeSource, Instant)> = VecDeque::new();
    let mut seen: IndexMap<(ActorId, CrsqlDbVersion), RangeInclusiveSet<CrsqlSeq>> = IndexMap::new();
    let mut cost = 0usize;
    if has_inflight {
        record_seen(&mut seen, &inflight);
    }
    let mut i = 0;
    while i < qn {
        let c = mk(&q[i]);
        cost += c.processing_cost();
        record_seen(&mut seen, &q[i]);
        queue.push_back((c, ChangeSource::Sync, Instant));
        i += 1;
    }

    // the offered changeset
    let offered = any_cs(true);
    let src = if kani::any() { ChangeSource::Broadcast } else { ChangeSource::Sync };
    let offered_cost = mk(&offered).processing_cost();
    const OFFER_TAG: u64 = 0xfeed_0000_0000;
    // BEFORE the step: does the cache cover everything the offer carries? is it booked?
    let pre_seen_covers = match seen.get(&(offered.actor, CrsqlDbVersion(offered.v))) {
        None => false,
        Some(set) => {
            if offered.full {
                let mut all = true;
                let mut s = offered.s0;
                while s <= offered.s1 {
                    if !set.contains(&CrsqlSeq(s)) {
                        all = false;
                    }
                    s += 1;
                }
                all
            } else {
                true
            }
        }
    };
    let pre_booked = offered.actor != SELF && {
        let i = if offered.actor == A { 0 } else { 1 };
        match w.bookie.map.get(&offered.actor) {
            None => false,
            Some(b) => {
                let seq_range = CrsqlSeq(offered.s0)..=CrsqlSeq(offered.s1);
                b.0.contains_all(CrsqlDbVersion(offered.v)..=CrsqlDbVersion(offered.v2), if offered.full { Some(&seq_range) } else { None })
            }
        }
    };
    // was it suppressed / known BEFORE the step?
    let (pa, pv, ps): (ActorId, u64, u64) = (any_actor(false), kani::any(), kani::any());
    kani::assume(1 <= pv && pv <= NV && ps <= NS);

    let (new_cost, _) = (ingest_step(
        mk_tagged(&offered, OFFER_TAG),
        src,
        &w.agent,
        &w.bookie,
        &mut queue,
        &mut seen,
        max_queue_len,
        cost,
        0,
    ));

    let evicted = qn >= max_queue_len;

    // (c) cost = Σ cost(queue)
    let mut sum = 0usize;
    for (c, _, _) in queue.iter() {
        sum += c.processing_cost();
    }
    assert!(new_cost == sum, "C10: queued-cost counter out of step with the queue");

    // (a) J after the step, for an arbitrary (actor, version, seq)
    if let Some(hit) = seen_has(&seen, pa, pv, ps) {
        // the cache would suppress a Full re-offer of (pa,pv,ps) iff hit; an Empty re-offer iff key present
        let mut on_the_way = has_inflight && cs_has(&inflight, pa, pv, ps);
        for (c, _, _) in queue.iter() {
            let covers = c.actor_id == pa
                && c.versions().start().0 <= pv
                && pv <= c.versions().end().0
                && match c.seqs() {
                    Some(r) => r.start().0 <= ps && ps <= r.end().0,
                    None => true,
                };
            if covers {
                on_the_way = true;
            }
        }
        if hit {
            assert!(on_the_way || booked(&w, pa, pv), "C10: the seen cache suppresses a change that is neither queued, in flight nor booked (a dropped change can never be re-accepted)");
        }
    }

    // (b) the offered changeset is queued unless self-authored, suppressed or already booked —
    //     and it is suppressed only if the cache really covered ALL of it
    let accepted = queue.len() > 0 && {
        let (last, _, _) = queue.get(queue.len() - 1).unwrap();
        last.ts() == Some(Timestamp(NTP64(OFFER_TAG)))
    };
    if offered.actor == SELF {
        assert!(!accepted && queue.len() == qn, "C10: a self-authored changeset was queued");
    } else {
        assert!(accepted == !(pre_seen_covers || pre_booked), "C10: an offered changeset was dropped although the node neither holds it nor has all of it on the way (or a duplicate was queued)");
    }
    kani::cover!(offered.actor != SELF && (queue.len() == qn + 1 || (evicted && qn > 0 && q[0].actor != offered.actor)), "offer accepted (enqueue, or eviction of another actor's change)");
    core::mem::forget((queue, seen, w));
}
/// progress: a changeset that is not self-authored, not in the cache and not booked is queued
/// when offered (with or without room — without room the OLDEST entry gives way).
fn fresh_offer_is_enqueued(qn: usize, max_queue_len: usize) {
    let w = any_world(false);
    let q = [any_cs(false), any_cs(false)];
    let mut queue: VecDeque<(ChangeV1, ChangeSource, Instant)> = VecDeque::new();
    let mut seen: IndexMap<(ActorId, CrsqlDbVersion), RangeInclusiveSet<CrsqlSeq>> = IndexMap::new();
    let mut cost = 0usize;
    let mut i = 0;
    while i < qn {
        let c = mk(&q[i]);
        cost += c.processing_cost();
        record_seen(&mut seen, &q[i]);
        queue.push_back((c, ChangeSource::Sync, Instant));
        i += 1;
    }
    let offered = any_cs(false);
    kani::assume(offered.full);
    // fresh: the cache does not know its version at all, bookkeeping does not hold it
    kani::assume(seen.get(&(offered.actor, CrsqlDbVersion(offered.v))).is_none());
    kani::assume(!booked(&w, offered.actor, offered.v));
    let _ = ingest_step(mk(&offered), ChangeSource::Sync, &w.agent, &w.bookie, &mut queue, &mut seen, max_queue_len, cost, 0);
    assert!(queue.len() >= 1);
    let (last, _, _) = queue.get(queue.len() - 1).unwrap();
    assert!(
        last.actor_id == offered.actor && *last.versions().start() == CrsqlDbVersion(offered.v) && last.seqs() == Some(&(CrsqlSeq(offered.s0)..=CrsqlSeq(offered.s1))),
        "C10: a fresh changeset was not enqueued"
    );
    assert!(queue.len() <= max_queue_len, "C10: queue grew past its limit");
    assert!(seen_has(&seen, offered.actor, offered.v, offered.s0) == Some(true), "C10: accepted changeset not recorded in the seen cache");
    kani::cover!(true, "fresh offer processed");
    core::mem::forget((queue, seen, w));
}

#[kani::proof]
#[kani::unwind(4)]
fn c10_step_keeps_j_q0_max1() {
    // queue / cache part of the invariant (no bookkeeping, nothing in flight)
    ingest_step_keeps_j(0, 1, false, false);
}
#[kani::proof]
#[kani::unwind(4)]
fn c10_fresh_offer_enqueued_q0_max1() {
    fresh_offer_is_enqueued(0, 1);
}

#[kani::proof]
#[kani::unwind(4)]
fn c10_step_keeps_j_q1_max1() {
    // queue / cache part of the invariant (no bookkeeping, nothing in flight)
    ingest_step_keeps_j(1, 1, false, false);
}
#[kani::proof]
#[kani::unwind(4)]
fn c10_fresh_offer_enqueued_q1_max1() {
    fresh_offer_is_enqueued(1, 1);
}

#[kani::proof]
#[kani::unwind(4)]
fn c10_step_keeps_j_q1_max2() {
    // queue / cache part of the invariant (no bookkeeping, nothing in flight)
    ingest_step_keeps_j(1, 2, false, false);
}
#[kani::proof]
#[kani::unwind(4)]
fn c10_fresh_offer_enqueued_q1_max2() {
    fresh_offer_is_enqueued(1, 2);
}

#[kani::proof]
#[kani::unwind(4)]
fn c10_step_keeps_j_q2_max2() {
    // queue / cache part of the invariant (no bookkeeping, nothing in flight)
    ingest_step_keeps_j(2, 2, false, false);
}
#[kani::proof]
#[kani::unwind(4)]
fn c10_fresh_offer_enqueued_q2_max2() {
    fresh_offer_is_enqueued(2, 2);
}

#[kani::proof]
#[kani::unwind(4)]
fn c10_step_keeps_j_with_bookkeeping_q1_max1() {
    // the already-known check: arbitrary bookkeeping per actor, one queued entry, full queue
    ingest_step_keeps_j(1, 1, true, false);
}
#[kani::proof]
#[kani::unwind(4)]
fn c10_step_keeps_j_with_inflight_q1_max2() {
    // a changeset handed to a processing batch stays in the cache without being queued
    ingest_step_keeps_j(1, 2, false, true);
}

// ---- the three cache operations of the ingest step, one at a time ---------------------------
// (the whole-step harnesses above compose them; these are the cheap per-change tier)
type Seen = IndexMap<(ActorId, CrsqlDbVersion), RangeInclusiveSet<CrsqlSeq>>;

/// model of "the cache covers all of `c`"
fn model_covers(seen: &Seen, c: &Cs) -> bool {
    match seen.get(&(c.actor, CrsqlDbVersion(c.v))) {
        None => false,
        Some(set) => {
            if c.full {
                let mut all = true;
                let mut s = c.s0;
                while s <= c.s1 {
                    if !set.contains(&CrsqlSeq(s)) {
                        all = false;
                    }
                    s += 1;
                }
                all
            } else {
                true
            }
        }
    }
}

/// eviction: when the queue is full the oldest entry gives way AND the cache forgets it, whoever
/// authored it and whoever authored the incoming change — otherwise a re-offer of the dropped
/// change is suppressed for good although the node never applied it.
#[kani::proof]
#[kani::unwind(4)]
fn c10_part_eviction_forgets_the_dropped_change() {
    let d = any_cs(false);
    let other = any_cs(false); // something else the cache remembers (in flight)
    let has_other: bool = kani::any();
    let incoming = any_cs(false);
    let mut queue: VecDeque<(ChangeV1, ChangeSource, Instant)> = VecDeque::new();
    let mut seen: Seen = IndexMap::new();
    let dc = mk(&d);
    let cost = dc.processing_cost();
    queue.push_back((dc, ChangeSource::Sync, Instant));
    record_seen(&mut seen, &d);
    if has_other {
        record_seen(&mut seen, &other);
    }
    let ch = mk(&incoming);
    let w = any_world(false);
    let (new_cost, _) = evict_oldest_when_full(&ch, ChangeSource::Sync, &w.agent, &w.bookie, &mut queue, &mut seen, 1, cost, 0);
    core::mem::forget(w);
    assert!(queue.len() == 0, "C10: full queue did not drop its oldest entry");
    assert!(new_cost == 0, "C10: queued-cost counter out of step with the queue");
    let ps: u64 = kani::any();
    kani::assume(ps <= NS && cs_has(&d, d.actor, d.v, ps));
    let still_remembered_for_other = has_other && cs_has(&other, d.actor, d.v, ps);
    if !still_remembered_for_other {
        assert!(
            seen_has(&seen, d.actor, d.v, ps) != Some(true),
            "C10: the seen cache suppresses a change that is neither queued, in flight nor booked (a dropped change can never be re-accepted)"
        );
    }
    if !d.full && !(has_other && other.actor == d.actor && other.v == d.v) {
        assert!(seen.get(&(d.actor, CrsqlDbVersion(d.v))).is_none(), "C10: a dropped Empty changeset is still suppressed by the seen cache");
    }
    kani::cover!(incoming.actor != d.actor, "evicted change authored by another actor than the incoming one");
    core::mem::forget((queue, seen, ch));
}
/// with room in the queue nothing is dropped and nothing forgotten
#[kani::proof]
#[kani::unwind(4)]
fn c10_part_no_eviction_with_room() {
    let d = any_cs(false);
    let incoming = any_cs(false);
    let mut queue: VecDeque<(ChangeV1, ChangeSource, Instant)> = VecDeque::new();
    let mut seen: Seen = IndexMap::new();
    let dc = mk(&d);
    let cost = dc.processing_cost();
    queue.push_back((dc, ChangeSource::Sync, Instant));
    record_seen(&mut seen, &d);
    let ch = mk(&incoming);
    let w = any_world(false);
    let (new_cost, _) = evict_oldest_when_full(&ch, ChangeSource::Sync, &w.agent, &w.bookie, &mut queue, &mut seen, 2, cost, 0);
    core::mem::forget(w);
    assert!(queue.len() == 1 && new_cost == cost, "C10: an entry was dropped although the queue had room");
    assert!(model_covers(&seen, &d), "C10: cache forgot a queued change");
    kani::cover!(true, "ran");
    core::mem::forget((queue, seen, ch));
}
/// lookup: an offer is suppressed only if the cache covers ALL of it (and then always)
#[kani::proof]
#[kani::unwind(4)]
fn c10_part_suppressed_iff_cache_covers_all_of_it() {
    // sequences 0..=2 here: the cache may hold {0} and {2} of a version while 0..=2 is offered
    let (a, b) = (any_cs_upto(false, 2), any_cs_upto(false, 2));
    let n: u8 = kani::any();
    let mut seen: Seen = IndexMap::new();
    if n >= 1 {
        record_seen(&mut seen, &a);
    }
    if n >= 2 {
        record_seen(&mut seen, &b);
    }
    let offered = any_cs_upto(false, 2);
    let ch = mk(&offered);
    let w = any_world(false);
    let mut queue: VecDeque<(ChangeV1, ChangeSource, Instant)> = VecDeque::new();
    let got = suppressed_by_seen_cache(&ch, ChangeSource::Sync, &w.agent, &w.bookie, &mut queue, &mut seen, 2, 0, 0);
    assert!(queue.len() == 0);
    core::mem::forget((w, queue));
    assert!(
        got == model_covers(&seen, &offered),
        "C10: an offered changeset was dropped although the node neither holds it nor has all of it on the way (or a duplicate was queued)"
    );
    kani::cover!(got, "suppressed");
    kani::cover!(!got && n >= 1 && a.actor == offered.actor && a.v == offered.v, "same version, not all sequences covered");
    kani::cover!(!got && n >= 2 && offered.full && offered.s0 == 0 && offered.s1 == 2 && seen_has(&seen, offered.actor, offered.v, 0) == Some(true) && seen_has(&seen, offered.actor, offered.v, 2) == Some(true), "offer spans a hole between two cached ranges");
    core::mem::forget((seen, ch));
}
/// insertion: after recording, the cache covers the offer and still covers what it covered
#[kani::proof]
#[kani::unwind(4)]
fn c10_part_record_covers_the_offer_and_keeps_the_rest() {
    let a = any_cs(false);
    let mut seen: Seen = IndexMap::new();
    let has_a: bool = kani::any();
    if has_a {
        record_seen(&mut seen, &a);
    }
    let offered = any_cs(false);
    let ch = mk(&offered);
    let w = any_world(false);
    let mut queue: VecDeque<(ChangeV1, ChangeSource, Instant)> = VecDeque::new();
    record_in_seen_cache(&ch, ChangeSource::Sync, &w.agent, &w.bookie, &mut queue, &mut seen, 2, 0, 0);
    assert!(queue.len() == 0);
    core::mem::forget((w, queue));
    assert!(model_covers(&seen, &offered), "C10: accepted changeset not recorded in the seen cache");
    if has_a {
        assert!(model_covers(&seen, &a), "C10: recording an offer made the cache forget another change");
    }
    // and nothing else: an arbitrary (actor, version, seq) is remembered only if a or the offer carries it
    let (pa, pv, ps): (ActorId, u64, u64) = (any_actor(false), kani::any(), kani::any());
    kani::assume(1 <= pv && pv <= NV && ps <= NS);
    if seen_has(&seen, pa, pv, ps) == Some(true) {
        assert!((has_a && cs_has(&a, pa, pv, ps)) || cs_has(&offered, pa, pv, ps), "C10: the seen cache remembers a change nobody offered");
    }
    kani::cover!(true, "ran");
    core::mem::forget((seen, ch));
}
