// Bounds: <= 2 members present (P, Q) plus a third actor id R; identity timestamps: whole seconds
// 1..=4 (symbolic); addresses a0..a5; clusters 0/1; RTT samples <= 400 ms, buffer <= 3 samples.
const P: ActorId = ActorId(Uuid(1));
const Q: ActorId = ActorId(Uuid(2));
const R: ActorId = ActorId(Uuid(3));

fn ts(k: u64) -> Timestamp {
    Timestamp(NTP64(k << 32))
}
fn any_ts() -> (u64, Timestamp) {
    let k: u64 = kani::any();
    kani::assume(k >= 1 && k <= 4);
    (k, ts(k))
}
fn any_addr() -> SocketAddr {
    let a: u8 = kani::any();
    kani::assume(a < 6);
    SocketAddr(a)
}
fn any_cluster() -> ClusterId {
    let c: u16 = kani::any();
    kani::assume(c < 2);
    ClusterId(c)
}
fn any_ring() -> Option<u8> {
    if kani::any() {
        let r: u8 = kani::any();
        kani::assume(r < 6);
        Some(r)
    } else {
        None
    }
}

#[derive(Clone, Copy)]
struct Spec {
    present: bool,
    k: u64,
    addr: SocketAddr,
    cluster: ClusterId,
    ring: Option<u8>,
}
fn any_spec() -> Spec {
    let (k, _) = any_ts();
    Spec { present: kani::any(), k, addr: any_addr(), cluster: any_cluster(), ring: any_ring() }
}

/// arbitrary view satisfying the representation invariant V:
///   by_addr maps exactly the current address of every present member to that member
///   (two members never share an address — the SWIM layer resolves address conflicts)
fn build(p: &Spec, q: &Spec) -> Members {
    let mut m = Members::default();
    kani::assume(!(p.present && q.present && p.addr == q.addr));
    for (id, s) in [(P, p), (Q, q)] {
        if s.present {
            let mut st = MemberState::new(s.addr, ts(s.k), s.cluster);
            st.ring = s.ring;
            m.states.insert(id, st);
            m.by_addr.insert(s.addr, id);
        }
    }
    m
}
fn spec_of(m: &Members, id: ActorId) -> Option<(u64, SocketAddr, ClusterId, Option<u8>)> {
    m.states.get(&id).map(|s| (s.ts.0 .0 >> 32, s.addr, s.cluster_id, s.ring))
}
/// V on the post-state
fn check_view_invariant(m: &Members) {
    let mut n = 0;
    for (id, st) in m.states.iter() {
        assert!(m.by_addr.get(&st.addr) == Some(id), "C18-INV: by_addr does not map a member's current address to it");
        n += 1;
    }
    assert!(m.by_addr.len() == n, "C18-INV: by_addr holds an address that is no member's current address");
}
fn unchanged(m: &Members, id: ActorId, s: &Spec) {
    match spec_of(m, id) {
        Some((k, a, c, r)) => {
            assert!(s.present && k == s.k && a == s.addr && c == s.cluster && r == s.ring, "C18: an unrelated member was modified")
        }
        None => {
            assert!(!s.present, "C18: an unrelated member was removed")
        }
    }
}

// ---- member up ---------------------------------------------------------------------------------
#[kani::proof]
#[kani::unwind(8)]
fn c18_member_up_step() {
    let (p, q) = (any_spec(), any_spec());
    let mut m = build(&p, &q);
    let who: u8 = kani::any();
    kani::assume(who < 2); // 0: P (possibly known), 1: R (never known)
    let id = if who == 0 { P } else { R };
    let (k, t) = any_ts();
    let addr = any_addr();
    let cluster = any_cluster();
    // SWIM precondition: the new identity's address is not the current address of ANOTHER member
    kani::assume(!(q.present && q.addr == addr));
    kani::assume(!(who == 1 && p.present && p.addr == addr));
    // an identity is one value: same id and same timestamp means same address and cluster
    if who == 0 && p.present && p.k == k {
        kani::assume(addr == p.addr && cluster == p.cluster);
    }
    let actor = Actor::new(id, addr, t, cluster);
    // round-trip observations already recorded for the address the identity arrives with
    let has_sample: bool = kani::any();
    let sample: u64 = kani::any();
    kani::assume(sample <= 400);
    if has_sample {
        let mut rtt = Rtt::default();
        rtt.buf.push_front(sample);
        m.rtts.insert(addr, rtt);
    }
    let ring_of_addr = if has_sample { bucket(sample) } else { None };
    let res = m.add_member(&actor);

    let known = who == 0 && p.present;
    match spec_of(&m, id) {
        None => {
            assert!(false, "C18: a member reported up is not listed")
        }
        Some((mk, ma, mc, mr)) => {
            if !known {
                assert!(res == MemberAddedResult::NewMember);
                assert!(mk == k && ma == addr && mc == cluster, "C18: new member not listed with its identity");
                assert!(mr == ring_of_addr, "C18: a new member's ring is not what the observations for its address say");
            } else if k > p.k {
                assert!(res == MemberAddedResult::Updated);
                assert!(mk == k && ma == addr && mc == cluster, "C18: newer identity did not replace the older one");
                if addr != p.addr {
                    assert!(mr == ring_of_addr, "C18: a member renewed at another address keeps a ring that was derived from its former address");
                } else {
                    assert!(mr == p.ring || (has_sample && mr == ring_of_addr), "C18: a renewal at the same address changed the ring without an observation");
                }
            } else {
                // older or same identity: nothing changes
                assert!(mk == p.k && ma == p.addr && mc == p.cluster && mr == p.ring, "C18: an older identity overwrote a newer one");
                assert!(res != MemberAddedResult::Updated);
            }
        }
    }
    unchanged(&m, Q, &q);
    if who == 1 {
        unchanged(&m, P, &p);
    }
    check_view_invariant(&m);
    kani::cover!(known && k > p.k && addr != p.addr, "renewed identity with a new address");
    kani::cover!(known && k > p.k && addr != p.addr && p.ring == Some(0) && !has_sample, "ring-0 member renewed at an unmeasured address");
    kani::cover!(known && k < p.k, "stale up");
    kani::cover!(!known, "new member");
    core::mem::forget(m);
}

// ---- member down -------------------------------------------------------------------------------
#[kani::proof]
#[kani::unwind(6)]
fn c18_member_down_step() {
    let (p, q) = (any_spec(), any_spec());
    let mut m = build(&p, &q);
    let (k, t) = any_ts();
    let addr = any_addr();
    let cluster = any_cluster();
    if p.present && p.k == k {
        kani::assume(addr == p.addr && cluster == p.cluster);
    }
    let actor = Actor::new(P, addr, t, cluster);
    let removed = m.remove_member(&actor);
    if p.present && p.k == k {
        assert!(removed && spec_of(&m, P).is_none(), "C18: down of the current identity did not remove the member");
    } else {
        assert!(!removed, "C18: down of another identity reported as effective");
        unchanged(&m, P, &p);
    }
    unchanged(&m, Q, &q);
    check_view_invariant(&m);
    kani::cover!(p.present && p.k > k, "stale down ignored");
    kani::cover!(removed, "member removed");
    core::mem::forget(m);
}

// ---- round-trip samples ------------------------------------------------------------------------
fn bucket(avg: u64) -> Option<u8> {
    if avg < 6 {
        Some(0)
    } else if avg < 15 {
        Some(1)
    } else if avg < 50 {
        Some(2)
    } else if avg < 100 {
        Some(3)
    } else if avg < 200 {
        Some(4)
    } else if avg < 300 {
        Some(5)
    } else {
        None
    }
}
#[kani::proof]
#[kani::unwind(8)]
fn c18_rtt_sample_sets_ring_of_current_address() {
    let (p, q) = (any_spec(), any_spec());
    let mut m = build(&p, &q);
    // earlier samples for the address
    let addr = any_addr();
    let n_prev: usize = kani::any();
    kani::assume(n_prev <= 2);
    let prev: [u64; 2] = [kani::any(), kani::any()];
    kani::assume(prev[0] <= 400 && prev[1] <= 400);
    if n_prev > 0 {
        let mut rtt = Rtt::default();
        let mut i = 0;
        while i < n_prev {
            rtt.buf.push_front(prev[i]);
            i += 1;
        }
        m.rtts.insert(addr, rtt);
    }
    let ms: u64 = kani::any();
    kani::assume(ms <= 400);
    m.add_rtt(addr, Duration::from_millis(ms));

    let mut sum = ms;
    let mut i = 0;
    while i < n_prev {
        sum += prev[i];
        i += 1;
    }
    let avg = sum / (n_prev as u64 + 1);
    for (id, s) in [(P, &p), (Q, &q)] {
        match spec_of(&m, id) {
            None => {
                assert!(!s.present)
            }
            Some((k, a, c, ring)) => {
                assert!(s.present && k == s.k && a == s.addr && c == s.cluster);
                if s.addr == addr {
                    let expect = match bucket(avg) {
                        Some(b) => Some(b),
                        None => s.ring,
                    };
                    assert!(ring == expect, "C18: ring is not the bucket of the mean round-trip time of the member's current address");
                } else {
                    assert!(ring == s.ring, "C18: a sample for another address changed a member's ring");
                }
            }
        }
    }
    check_view_invariant(&m);
    kani::cover!(p.present && p.addr == addr && bucket(avg) == Some(0), "ring 0 reached");
    core::mem::forget(m);
}

// ---- priority broadcast targets ----------------------------------------------------------------
/// ring0()'s per-member filter (the closure, sliced): a member is a priority target ⟺ it is in the
/// asked-for cluster and its ring is 0; the target is its CURRENT address.  All u16 clusters, all
/// u8 rings.  (ring0 itself = states.values().filter_map(this): iterated in the thorough harness.)
#[kani::proof]
#[kani::unwind(3)]
fn c18_ring0_filter_same_cluster_ring0_only() {
    let asked = ClusterId(kani::any());
    let cluster = ClusterId(kani::any());
    let ring: Option<u8> = if kani::any() { Some(kani::any()) } else { None };
    let addr = any_addr();
    let (_, t) = any_ts();
    let mut st = MemberState::new(addr, t, cluster);
    st.ring = ring;
    let got = ring0_member_filter(asked, &st);
    let expect = cluster == asked && ring == Some(0);
    assert!(got.is_some() == expect, "C18: ring0 target of another cluster or ring, or a same-cluster ring-0 member is not a priority target");
    if let Some(a) = got {
        assert!(a == addr, "C18: ring0 yields an address that is not the member's current one");
    }
    kani::cover!(got.is_some(), "target");
    kani::cover!(got.is_none() && ring == Some(0), "ring 0 in another cluster");
}
#[kani::proof]
#[kani::unwind(6)]
fn c18_ring0_targets_same_cluster_ring0_only() {
    let (p, q) = (any_spec(), any_spec());
    let m = build(&p, &q);
    let c = any_cluster();
    let mut seen_p = false;
    let mut seen_q = false;
    for a in m.ring0(c) {
        let is_p = p.present && a == p.addr;
        let is_q = q.present && a == q.addr;
        assert!(is_p || is_q, "C18: ring0 yields an address of no member");
        if is_p {
            assert!(p.cluster == c && p.ring == Some(0), "C18: ring0 target of another cluster or ring");
            seen_p = true;
        }
        if is_q {
            assert!(q.cluster == c && q.ring == Some(0), "C18: ring0 target of another cluster or ring");
            seen_q = true;
        }
    }
    assert!(seen_p == (p.present && p.cluster == c && p.ring == Some(0)), "C18: a same-cluster ring-0 member is not a priority target");
    assert!(seen_q == (q.present && q.cluster == c && q.ring == Some(0)));
    core::mem::forget(m);
}

// ---- end to end: a renewed identity with a new address keeps getting ring updates ---------------
#[kani::proof]
#[kani::unwind(8)]
fn c18_renewed_identity_followed_by_rtt() {
    let mut m = Members::default();
    let (k1, t1) = any_ts();
    let (k2, t2) = any_ts();
    kani::assume(k2 > k1);
    let (a1, a2) = (any_addr(), any_addr());
    let c = any_cluster();
    m.add_member(&Actor::new(P, a1, t1, c));
    m.add_member(&Actor::new(P, a2, t2, c));
    let ms: u64 = kani::any();
    kani::assume(ms < 6);
    m.add_rtt(a2, Duration::from_millis(ms));
    match spec_of(&m, P) {
        Some((k, a, _, ring)) => {
            assert!(k == k2 && a == a2, "C18: member not listed with its newest identity");
            assert!(ring == Some(0), "C18: a sample for the member's current address did not set its ring");
        }
        None => {
            assert!(false)
        }
    }
    let mut n = 0;
    for a in m.ring0(c) {
        assert!(a == a2);
        n += 1;
    }
    assert!(n == 1, "C18: ring-0 member missing from the priority targets");
    // a sample for the FORMER address must not touch the member
    if a1 != a2 {
        m.add_rtt(a1, Duration::from_millis(250));
        assert!(spec_of(&m, P).map(|s| s.3) == Some(Some(0)), "C18: a sample for a former address changed the ring");
    }
    core::mem::forget(m);
}
