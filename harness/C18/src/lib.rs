//! C18 — the membership view follows the newest identity of each peer.
//! Sliced: all of members.rs, Actor (+ win_addr_conflict), Timestamp (+ its PartialEq).
//! Real crates: uhlc (NTP64), circular-buffer.  BTreeMap is the array-backed stand-in.
#![allow(unused_imports, dead_code, unused_variables, unused_mut, clippy::all)]

pub mod host {
    use circular_buffer::CircularBuffer;
    use std::ops::{Deref, Range};
    use std::time::Duration;
    use uhlc::NTP64;
    use venv::collections::BTreeMap;
    use venv::{debug, trace};

    /// opaque address (the membership code only copies, compares and orders addresses)
    #[derive(Debug, Clone, Copy, PartialEq, Eq, PartialOrd, Ord, Hash)]
    pub struct SocketAddr(pub u8);
    #[derive(Debug, Default, Clone, Copy, PartialEq, Eq, PartialOrd, Ord, Hash)]
    pub struct Uuid(pub u8);
    /// the one method of foca's `Identity` that is sliced
    pub trait Identity {
        fn win_addr_conflict(&self, adversary: &Self) -> bool;
    }

    include!("sliced/actor.rs");
    include!("sliced/broadcast.rs");
    include!("sliced/members.rs");
    include!("sliced/ring0.rs");

    #[cfg(kani)]
    mod proofs {
        use super::*;
        include!("proofs.rs");
    }
}
