#!/usr/bin/env python3-vt
"""
E2 — SQL predicates to SMT.

usage: sqlpred.py <spec.json> <sliced-dir>

The spec names SQL texts that the slicer extracted from the repository as `pub const NAME: &str =
"..."` (so the text is whatever /repo contains NOW) and gives, for each, the specification its
WHERE clause must be equivalent to.  The WHERE clause is parsed (AND OR NOT BETWEEN = <> != <= >=
< > + - parentheses, :named / ? parameters, column names, SQLite truthiness of a bare integer
expression, `--` comments) into a z3 term over mathematical integers restricted to
0 <= x < 2^62 (inside that range SQLite's 64-bit integer arithmetic is exact), the negated
equivalence is checked with z3 AND with cvc5 (via SMT-LIB2 text); `unsat` on both = holds for
every row and parameter value in range.  A model is replayed on a real in-memory SQLite before
it is reported.  Prints one JSON line: {name, verdict: holds|violated|inconclusive, queries:[..]}.
"""
import json, os, re, sqlite3, subprocess, sys, time
import z3

LIM = 2 ** 62


def strip_comments(sql):
    return re.sub(r"--[^\n]*", " ", sql)


def const_text(sliced_dir, name):
    pat = re.compile(r"pub\s+const\s+" + re.escape(name) + r"\s*:\s*&\s*str\s*=\s*(r#*\"|\")")
    for fn in sorted(os.listdir(sliced_dir)):
        if not fn.endswith(".rs"):
            continue
        src = open(os.path.join(sliced_dir, fn)).read()
        m = pat.search(src)
        if not m:
            continue
        i = m.end()
        if m.group(1).startswith("r"):
            hashes = m.group(1).count("#")
            j = src.index('"' + "#" * hashes, i)
            return src[i:j]
        out = []
        while src[i] != '"':
            if src[i] == "\\":
                i += 1
                c = src[i]
                if c == "\n":  # line continuation: skip leading whitespace of the next line
                    i += 1
                    while src[i] in " \t\n":
                        i += 1
                    continue
                out.append({"n": "\n", "t": "\t", "\\": "\\", '"': '"', "'": "'", "r": "\r", "0": "\0"}[c])
            else:
                out.append(src[i])
            i += 1
        return "".join(out)
    return None


TOKEN = re.compile(r"\s*(?:(\d+)|(:[A-Za-z_][A-Za-z_0-9]*|\?\d*)|([A-Za-z_][A-Za-z_0-9]*|\"[^\"]+\")|(<=|>=|<>|!=|=|<|>|\+|-|\(|\)|,|;|\*))")


def tokenize(s):
    pos, out = 0, []
    s = s.strip()
    while pos < len(s):
        m = TOKEN.match(s, pos)
        if not m:
            raise ValueError("cannot tokenize SQL at: %r" % s[pos:pos + 30])
        pos = m.end()
        if m.group(1):
            out.append(("num", int(m.group(1))))
        elif m.group(2):
            out.append(("param", m.group(2)))
        elif m.group(3):
            w = m.group(3)
            if w.upper() in ("AND", "OR", "NOT", "BETWEEN", "WHERE", "FROM", "DELETE", "SELECT", "RETURNING", "ORDER", "GROUP", "BY", "EXISTS", "AS", "IN", "IS", "NULL", "LIMIT"):
                out.append(("kw", w.upper()))
            else:
                out.append(("ident", w.strip('"')))
        else:
            out.append(("op", m.group(4)))
    return out


class P:
    """recursive descent over SQLite's precedence: OR < AND < NOT < comparison/BETWEEN < + -"""

    def __init__(self, toks, env, positional):
        self.t, self.i, self.env, self.pos_params, self.npos = toks, 0, env, positional, 0

    def peek(self):
        return self.t[self.i] if self.i < len(self.t) else ("eof", None)

    def take(self, kind=None, val=None):
        k, v = self.peek()
        if (kind and k != kind) or (val is not None and v != val):
            raise ValueError("SQL parse: expected %s %s, got %s %s" % (kind, val, k, v))
        self.i += 1
        return v

    @staticmethod
    def truthy(x):
        return x if z3.is_bool(x) else x != 0

    @staticmethod
    def as_int(x):
        return z3.If(x, 1, 0) if z3.is_bool(x) else x

    def expr(self):
        return self.or_()

    def or_(self):
        x = self.and_()
        while self.peek() == ("kw", "OR"):
            self.take()
            x = z3.Or(self.truthy(x), self.truthy(self.and_()))
        return x

    def and_(self):
        x = self.not_()
        while self.peek() == ("kw", "AND"):
            self.take()
            x = z3.And(self.truthy(x), self.truthy(self.not_()))
        return x

    def not_(self):
        if self.peek() == ("kw", "NOT"):
            self.take()
            return z3.Not(self.truthy(self.not_()))
        return self.cmp()

    def cmp(self):
        x = self.add()
        k, v = self.peek()
        if (k, v) == ("kw", "BETWEEN"):
            self.take()
            lo = self.add()
            self.take("kw", "AND")
            hi = self.add()
            return z3.And(self.as_int(x) >= self.as_int(lo), self.as_int(x) <= self.as_int(hi))
        if k == "op" and v in ("=", "<>", "!=", "<=", ">=", "<", ">"):
            self.take()
            y = self.add()
            a, b = self.as_int(x), self.as_int(y)
            return {"=": a == b, "<>": a != b, "!=": a != b, "<=": a <= b, ">=": a >= b, "<": a < b, ">": a > b}[v]
        return x

    def add(self):
        x = self.atom()
        while self.peek()[0] == "op" and self.peek()[1] in ("+", "-"):
            op = self.take()
            y = self.atom()
            x = self.as_int(x) + self.as_int(y) if op == "+" else self.as_int(x) - self.as_int(y)
        return x

    def atom(self):
        k, v = self.peek()
        if k == "num":
            self.take()
            return z3.IntVal(v)
        if k == "param":
            self.take()
            if v.startswith("?"):
                name = self.pos_params[self.npos]
                self.npos += 1
                return self.env[name]
            return self.env[v]
        if k == "ident":
            self.take()
            return self.env[v]
        if (k, v) == ("op", "("):
            self.take()
            x = self.expr()
            self.take("op", ")")
            return x
        raise ValueError("SQL parse: unexpected %s %s" % (k, v))


def where_clause(sql, which=1):
    """text after the which-th WHERE up to RETURNING / ORDER / GROUP / LIMIT / closing of a subquery"""
    s = strip_comments(sql)
    toks = tokenize(s)
    idx = [i for i, t in enumerate(toks) if t == ("kw", "WHERE")]
    if len(idx) < which:
        raise ValueError("no WHERE #%d" % which)
    i = idx[which - 1] + 1
    depth, out = 0, []
    while i < len(toks):
        k, v = toks[i]
        if (k, v) == ("op", "("):
            depth += 1
        if (k, v) == ("op", ")"):
            if depth == 0:
                break
            depth -= 1
        if depth == 0 and k == "kw" and v in ("RETURNING", "ORDER", "GROUP", "LIMIT"):
            break
        if (k, v) == ("op", ";"):
            break
        out.append((k, v))
        i += 1
    return out


def run_cvc5(smt2):
    try:
        r = subprocess.run(["cvc5", "--lang", "smt2"], input=smt2, capture_output=True, text=True, timeout=120)
    except Exception as e:
        return "error: %s" % e
    out = (r.stdout + r.stderr).strip()
    if "(error" in out or "rror" in out.split("\n")[0:1][0] if out else False:
        return "error: " + out[:200]
    return out.split("\n")[0].strip() if out else "error: empty"


def replay_sqlite(chk, sql, model_vals):
    """run the real statement on a real SQLite; returns (matched_by_sql: bool)"""
    con = sqlite3.connect(":memory:")
    cols = chk["columns"]
    con.execute("CREATE TABLE %s (%s)" % (chk["table"], ", ".join('"%s"' % c for c in cols)))
    row = [model_vals.get(chk["row_vars"].get(c, ""), 0) for c in cols]
    con.execute("INSERT INTO %s VALUES (%s)" % (chk["table"], ",".join("?" * len(cols))), row)
    params = {}
    for p, var in chk["params"].items():
        params[p.lstrip(":")] = model_vals.get(var, 0)
    if chk.get("positional"):
        # `?` placeholders: bound in order
        params = [model_vals.get(chk["params"][p], 0) for p in chk["positional"]]
    s = strip_comments(sql)
    verb = s.strip().split()[0].upper()
    if verb == "DELETE":
        s2 = re.sub(r"RETURNING.*$", "", s, flags=re.S | re.I)
        cur = con.execute(s2, params)
        return cur.rowcount == 1
    # SELECT: wrap as existence test of the WHERE over the one row
    ms = list(re.finditer(r"\bWHERE\b", s, re.I))
    m = ms[chk.get("where_index", 1) - 1]
    tail = s[m.end():]
    tail = re.split(r"\b(ORDER|GROUP|LIMIT)\b", tail, flags=re.I)[0]
    # cut an unbalanced closing parenthesis (sub-select)
    depth, cut = 0, len(tail)
    for i, ch in enumerate(tail):
        if ch == "(":
            depth += 1
        elif ch == ")":
            if depth == 0:
                cut = i
                break
            depth -= 1
    q = "SELECT COUNT(*) FROM %s WHERE %s" % (chk["table"], tail[:cut])
    return con.execute(q, params).fetchone()[0] == 1


def main():
    spec = json.load(open(sys.argv[1]))
    sliced = sys.argv[2]
    t0 = time.time()
    res = {"name": spec["name"], "queries": [], "verdict": "holds"}
    for chk in spec["checks"]:
        q = {"const": chk["const"], "spec": chk["expected"], "domain": chk.get("domain", "")}
        sql = const_text(sliced, chk["const"])
        if sql is None:
            q.update(verdict="inconclusive", error="SQL text %s not found in slices" % chk["const"])
            res["queries"].append(q)
            res["verdict"] = "inconclusive"
            continue
        q["sql_sha1"] = __import__("hashlib").sha1(sql.encode()).hexdigest()
        try:
            vars_ = {}
            env = {}
            for col, var in chk["row_vars"].items():
                vars_[var] = z3.Int(var)
                env[col] = vars_[var]
            for p, var in chk["params"].items():
                vars_.setdefault(var, z3.Int(var))
                env[p] = vars_[var]
            toks = where_clause(sql, chk.get("where_index", 1))
            parser = P(toks, env, chk.get("positional", []))
            f = P.truthy(parser.expr())
            if parser.i != len(toks):
                raise ValueError("trailing tokens in WHERE: %s" % toks[parser.i:parser.i + 5])
            scope = dict(vars_)
            scope.update({"And": z3.And, "Or": z3.Or, "Not": z3.Not, "Implies": z3.Implies})
            expected = eval(chk["expected"], {"__builtins__": {}}, scope)
            dom = [z3.And(v >= 0, v < LIM) for v in vars_.values()]
            if chk.get("assume"):
                dom.append(eval(chk["assume"], {"__builtins__": {}}, scope))
            s = z3.Solver()
            s.set("timeout", 120000)
            s.add(*dom)
            s.add(f != expected)
            st = time.time()
            r = s.check()
            q["z3"] = str(r)
            q["z3_time_s"] = round(time.time() - st, 3)
            smt2 = "(set-logic ALL)\n" + s.to_smt2()
            q["cvc5"] = run_cvc5(smt2)
            if str(r) == "unsat" and q["cvc5"] == "unsat":
                q["verdict"] = "unsat"
            elif str(r) == "sat":
                m = s.model()
                vals = {k: (m.eval(v, model_completion=True).as_long()) for k, v in vars_.items()}
                q["model"] = vals
                want = bool(z3.is_true(m.eval(expected, model_completion=True)))
                got = replay_sqlite(chk, sql, vals)
                q["sqlite_matches_row"] = got
                q["spec_matches_row"] = want
                if got != want:
                    q["verdict"] = "sat-replayed"
                    res["verdict"] = "violated"
                else:
                    q["verdict"] = "inconclusive"
                    q["error"] = "solver model does not reproduce on SQLite (encoding suspect)"
                    if res["verdict"] == "holds":
                        res["verdict"] = "inconclusive"
            else:
                q["verdict"] = "inconclusive"
                q["error"] = "solvers disagree or unknown"
                if res["verdict"] == "holds":
                    res["verdict"] = "inconclusive"
        except Exception as e:
            q.update(verdict="inconclusive", error="%s: %s" % (type(e).__name__, e))
            if res["verdict"] == "holds":
                res["verdict"] = "inconclusive"
        res["queries"].append(q)
    res["time_s"] = round(time.time() - t0, 3)
    print(json.dumps(res))


if __name__ == "__main__":
    main()
