#!/bin/bash
# waits for the running queue to finish, then runs another one
while pgrep -f "tools/runq.sh" > /dev/null; do sleep 15; done
exec /verif/tools/runq.sh "$@"
