#!/usr/bin/env python3
"""Writes seeded/README.md: one row per seeded change with what it breaks and which check (if any) caught it."""
import json, os, re
ROOT = os.path.dirname(os.path.dirname(os.path.abspath(__file__)))
rows = []
for d in sorted(os.listdir(os.path.join(ROOT, "seeded"))):
    mp = os.path.join(ROOT, "seeded", d, "meta.json")
    if not os.path.exists(mp):
        continue
    m = json.load(open(mp))
    det = os.path.join(ROOT, "seeded", d, "detect.log")
    verdict, by = "not run yet", ""
    others = sorted(f for f in os.listdir(os.path.join(ROOT, "seeded", d)) if re.fullmatch(r"detect\.C\d+\.log", f))
    if os.path.exists(det):
        t = open(det).read()
        ex = re.search(r"exit=(\d+)", t)
        hs = re.findall(r"^E1 (\S+)\s+FAIL", t, re.M) + re.findall(r"^E2 (\S+)\s+violated", t, re.M)
        if "VIOLATION property=" in t:
            verdict, by = "CAUGHT (VIOLATION, exit 1)", ", ".join(sorted(set(hs)))
        elif ex and ex.group(1) == "2":
            inc = re.findall(r"^E1 (\S+)\s+INCONCLUSIVE", t, re.M)
            verdict, by = "inconclusive (exit 2)", ", ".join(inc[:4])
        elif ex and ex.group(1) == "0":
            verdict = "MISSED (check passes)"
        else:
            verdict = "see detect.log"
    for f in others:
        t2 = open(os.path.join(ROOT, "seeded", d, f)).read()
        other = f.split(".")[1]
        if "VIOLATION property=" in t2:
            hs2 = re.findall(r"^E1 (\S+)\s+FAIL", t2, re.M) + re.findall(r"^E2 (\S+)\s+violated", t2, re.M)
            verdict += "; %s's check: CAUGHT" % other
            by += ("; " if by else "") + ", ".join(sorted(set(hs2)))
        elif re.search(r"exit=0", t2):
            verdict += "; %s's check: passes" % other
        else:
            verdict += "; %s's check: inconclusive" % other
    rows.append((d, m["property"], m["breaks"], m["needs_to_manifest"], verdict, by))
out = ["# Seeded changes\n", "Produced by independent sub-agents (given only the property text and a scratch worktree), confirmed by `verify_seed.sh` (suite passes with the change, demonstration fails with it and passes without), then run against the property's quick check with `run_seed.sh` (patch applied to /repo only while the check slices it).\n",
       "| id | property | what it breaks | needs | result | caught by |", "|---|---|---|---|---|---|"]
for r in rows:
    out.append("| %s | %s | %s | %s | %s | %s |" % tuple(x.replace("|", "\\|") for x in r))
open(os.path.join(ROOT, "seeded", "README.md"), "w").write("\n".join(out) + "\n")
print("\n".join("%s %s: %s %s" % (r[0], r[1], r[4], r[5]) for r in rows))
