#!/bin/bash
# runs the quick tier of the given properties one after the other (8 harnesses in parallel each)
cd /verif
for p in "$@"; do
  ./check $p --tier quick --jobs 8 > .build/$p.quick.out 2>&1
  echo "$(date +%H:%M:%S) $p exit=$?" >> .build/runq.log
done
