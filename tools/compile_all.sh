#!/bin/bash
# compile every harness crate against fresh slices (no verification): catches slicer/host breakage fast
cd /verif
for p in "$@"; do
  d=/verif/gen/adchk_$p; rm -rf $d; mkdir -p $d; cp -r harness/$p/. $d/; [ -f $d/Cargo.lock ] || cp /repo/Cargo.lock $d/ 2>/dev/null
  true
  ./slicer/target/release/slicer /repo harness/$p/slices.spec $d/src/sliced > $d/slice.log 2>&1 || { echo "$p SLICE-ERROR $(head -c 200 $d/slice.log)"; continue; }
  envs=$(python3 -c "
import json
c=json.load(open('/verif/harness/$p/check.json'))
print(' '.join('%s=%s'%(k,v) for k,v in c.get('env',{}).get('quick',{}).items()))")
  ka=$(python3 -c "
import json
c=json.load(open('/verif/harness/$p/check.json'))
ka=c.get('kani_args',[]); ka=ka.get('quick',[]) if isinstance(ka,dict) else ka
print(' '.join(x for x in ka if x in ('-Z','stubbing')))")
  ( cd $d && env $envs CARGO_NET_OFFLINE=true timeout 900 cargo kani --only-codegen $ka --target-dir $d/t > $d/build.log 2>&1; if grep -qE "^error" $d/build.log; then echo "$p COMPILE-ERROR"; grep -E "^error" -A6 $d/build.log | head -20; else echo "$p ok"; fi )
done
