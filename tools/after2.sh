#!/bin/bash
# waits until no runq.sh AND no after.sh is around, then runs another quick queue
sleep 30
while pgrep -f "tools/runq.sh|tools/after.sh" > /dev/null; do sleep 15; done
exec /verif/tools/runq.sh "$@"
