#!/bin/bash
# stop every verification job (queues, runner, cargo-kani, cbmc)
for pat in 'build/queue' 'python3 ./check' 'cargo-kani' 'kani-driver'; do
  pkill -9 -f "$pat" 2>/dev/null
done
pkill -9 -x cbmc 2>/dev/null
pkill -9 -x goto-instrument 2>/dev/null
sleep 1
ps -eo pid,comm | grep -E "cbmc|cargo-kani|check" | head
echo killed
