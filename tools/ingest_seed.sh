#!/bin/bash
# usage: ingest_seed.sh <worktree> <changeN> <new-id> <crate> <demo-test-filter>
# copies a sub-agent's deliverables into seeded/<id>/, confirms them (verify_seed.sh) and writes verify.log
set -u
WT=$1; CH=$2; ID=$3; CRATE=$4; FILTER=$5
D=/verif/seeded/$ID
mkdir -p $D
cp $WT/seed_out/$CH.patch.diff $D/patch.diff
cp $WT/seed_out/$CH.demo.patch $D/demo.patch
cp $WT/seed_out/$CH.notes.md $D/notes.md 2>/dev/null
/verif/seeded/verify_seed.sh $WT $D/patch.diff $D/demo.patch $CRATE "$FILTER" > $D/verify.log 2>&1
cat $D/verify.log
