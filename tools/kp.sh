#!/bin/bash
# kill processes whose command line contains $1 (excluding this script and its ancestors)
me=$$; par=$PPID
for p in $(pgrep -f "$1"); do
  [ "$p" = "$me" ] && continue; [ "$p" = "$par" ] && continue
  # skip shells that merely mention the pattern as an argument to this script
  if tr '\0' ' ' < /proc/$p/cmdline 2>/dev/null | grep -q "kp.sh"; then continue; fi
  kill -9 $p 2>/dev/null
done
true
