#!/bin/bash
# waits for the quick queue, then runs the THOROUGH tier of the given properties one after the other
cd /verif
while pgrep -f "tools/runq.sh|tools/after.sh" > /dev/null; do sleep 20; done
for p in "$@"; do
  ./check $p --tier thorough --jobs ${TJOBS:-4} --no-evidence > .build/$p.thorough.out 2>&1
  rc=$?
  echo "$(date +%H:%M:%S) $p thorough exit=$rc" >> .build/runt.log
done
