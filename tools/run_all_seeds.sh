#!/bin/bash
# runs every seeded change (or those given) against its property's quick check, sequentially
cd /verif
# (runs next to the regular queues: tagged runs, own gen/build dirs)
LIST="$@"
[ -z "$LIST" ] && LIST=$(ls seeded | grep -E '^C[0-9]+-[0-9]+$')
for s in $LIST; do
  [ -f seeded/$s/detect.log ] && grep -q "^exit=" seeded/$s/detect.log && [ -z "${FORCE:-}" ] && continue
  seeded/run_seed.sh $s --jobs 8 >> .build/seeds.log 2>&1
done
python3 tools/seed_table.py > .build/seed_table.out 2>&1
