import os
#!/usr/bin/env python3
"""Regenerates /verif/MANIFEST.json from the per-property check.json files.
usage: mkmanifest.py C02 C03 ...   (the properties to register as checks; the rest of the claimed
set and the structurally out-of-reach ones go to not_applicable with their reason)"""
import json, os, sys
ROOT = os.path.dirname(os.path.dirname(os.path.abspath(__file__)))
claim = {
 "C02": ("full statement within bounds", "DESIGN.md §4 C02"),
 "C03": ("decision kernels only (SQL range-merge predicate, chunk-arrival step, apply trigger, applier guard); atomic visibility itself is SQLite's", "DESIGN.md §4 C03"),
 "C04": ("full statement within bounds (quick: per block of the per-actor loop body + inductive de-dup step; thorough: whole function)", "DESIGN.md §4 C04"),
 "C05": ("in part: answering a partially buffered version from the buffered rows (exactly held ∩ requested), empties detection for versions without live rows, the need filter predicate, the SQL range / overlap predicates, one read transaction per need; the Full arm's main query over crsql_changes is outside", "DESIGN.md §4 C05"),
 "C08": ("full statement within bounds", "DESIGN.md §4 C08"),
 "C09": ("decode totality, round trips and key layout within size bounds; byte-compatibility with the binary extension only through its documented layout", "DESIGN.md §4 C09"),
 "C10": ("safety invariant J + one-step progress lemma of the ingest step (quick: its three cache operations separately; thorough: the composed step)", "DESIGN.md §4 C10"),
 "C12": ("client gap detection and resume point; server hand-over reconciliation with race outcomes as symbolic inputs; the forwarder's stop-on-lag rule", "DESIGN.md §4 C12"),
 "C14": ("causal-length cache and notification parity (inductive lemmas); candidate selection is outside", "DESIGN.md §4 C14"),
 "C16": ("the four cluster-id decision sites and the wire default", "DESIGN.md §4 C16"),
 "C17": ("the middleware decision (token) and the read-only wiring of the query endpoint (pool open flags, the connection a submitted statement is prepared on); route coverage, SQLite's own refusal of writes on a read-only handle and the subscription endpoint's single-SELECT parse are outside", "DESIGN.md §4 C17"),
 "C18": ("full statement within bounds", "DESIGN.md §4 C18"),
}
na_reasons = {
 "C01": "convergence is decided by the binary-only cr-sqlite extension merging rows inside SQLite (FFI): not encodable; its bookkeeping lemmas are checked under C02/C03/C04",
 "C06": "quantifies over crash points of SQLite's WAL/pager and the file system: no Rust code the solver can see carries the property",
 "C07": "atomicity / version allocation are properties of an SQLite IMMEDIATE transaction and crsql_peek_next_db_version (FFI); chunk tiling is C08, gap-free own versions is the s=e=head+1 case of C02",
 "C11": "the oracle is SQLite evaluating arbitrary user SQL and the matcher's generated EXCEPT statements",
 "C13": "process lifecycle, directories and a persisted status string",
 "C15": "sqlite3_parser over symbolic SQL text and DDL executed by SQLite/cr-sqlite",
 "C19": "VACUUM INTO, ordinal rewriting in SQL, POSIX byte-range locks",
 "C20": "a property of all schedules of tokio tasks, semaphores and channels; Kani has no concurrency model",
}
reg = sys.argv[1:] or sorted(d for d in os.listdir(os.path.join(os.path.dirname(os.path.dirname(os.path.abspath(__file__))), 'harness')))  # default: every harness crate
props = [json.loads(l) for l in open(os.path.join(ROOT, "properties.jsonl"))]
checks = []
for pid in reg:
    cfg = json.load(open(os.path.join(ROOT, "harness", pid, "check.json")))
    scope, ref = claim[pid]
    checks.append({
        "property_id": pid,
        "quick_cmd": "./check %s --tier quick" % pid,
        "thorough_cmd": "./check %s --tier thorough" % pid,
        "evidence_file": "/verif/evidence/%s.json" % pid,
        "replay_cmd_template": "./check %s --replay {path}" % pid,
        "engine": "E1+E2" if cfg.get("e2") else "E1",
        "level_claimed": {"category": "other", "text": "Bounded solver verdict (Kani/CBMC SAT%s) over the repository's own code, sliced from /repo on every run; scope: %s. Not a proof: bounds and stand-ins are stated in the evidence; unwinding assertions and vacuity covers are on." % (", z3+cvc5 for the SQL predicate" if cfg.get("e2") else "", scope), "design_ref": ref},
        "level_note": "Trusted: Kani 0.68 / CBMC 6.11 / CaDiCaL%s, the slicer (exact token printer, self-checked), the /verif/env stand-ins (differentially tested against rangemap / std). Assumptions: %s" % (", z3 4.8.12, cvc5 1.0, the WHERE-clause parser" if cfg.get("e2") else "", "; ".join(cfg.get("assumptions", []))[:900]),
        "technique": "bounded model checking (Kani/CBMC) of source-sliced real code re-hosted on heap-free stand-ins%s" % ("; SQL WHERE clause → SMT (z3 + cvc5)" if cfg.get("e2") else ""),
    })
not_app = []
for p in props:
    if p["id"] in reg:
        continue
    if p["id"] in na_reasons:
        not_app.append({"property_id": p["id"], "reason": na_reasons[p["id"]]})
    else:
        not_app.append({"property_id": p["id"], "reason": "check built (harness/%s) but not registered yet: its quick tier has not yet been seen green on the current tree within the time budget" % p["id"]})
m = {
 "version": 1,
 "setup_cmd": "cd /verif/slicer && CARGO_NET_OFFLINE=true cargo build --release --offline && cd /verif/env && CARGO_NET_OFFLINE=true cargo test --release --offline",
 "hooks": {"guard": "beanpuppy_corrosion_verif", "enable": "none needed: private code is reached by slicing the source, not by hooks (guard name reserved, unused)", "baseline_off_cmd": "cd /repo && cargo nextest run --workspace --no-fail-fast --test-threads 8 --offline", "source_commits": [], "add_only": True},
 "engines": [
  {"name": "E1", "path": "/verif/check", "serves_properties": [c["property_id"] for c in checks], "kind_free_text": "slice-and-rehost: syn slicer + heap-free stand-ins + Kani/CBMC bounded model checking, native concrete playback of counterexamples"},
  {"name": "E2", "path": "/verif/sqlpred/sqlpred.py", "serves_properties": [c["property_id"] for c in checks if c["engine"] == "E1+E2"], "kind_free_text": "SQL WHERE clause → SMT (z3 + cvc5), counterexamples replayed on real SQLite"}],
 "checks": checks,
 "notes": "All checks re-slice /repo's working tree on every run. exit 2 = inconclusive (never success). Genuine defects found were repaired by fix: commits in /repo (known_findings.json lists them as fixed entries).",
 "not_applicable": not_app,
}
json.dump(m, open(os.path.join(ROOT, "MANIFEST.json"), "w"), indent=1)
print("registered:", reg)
