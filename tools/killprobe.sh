#!/bin/bash
pkill -9 -f "C10.probe" ; pkill -9 -f "gen/C10.probe"; true
