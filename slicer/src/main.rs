//! slicer — extracts items / impl methods / statement ranges / expressions from the repository's
//! Rust sources, token-for-token, so that they can be re-hosted against solver-friendly stand-ins.
//!
//! usage: slicer <repo-root> <spec-file> <out-dir>
//!
//! spec file (line oriented, `#` comments):
//!   strip_derives <A> <B> ..            also drop these derives (default keeps Readable/Writable)
//!   out <name>.rs                       start a new output file
//!   file <repo-relative path>           source file for the following selectors
//!   struct|enum|fn|const|static|type|trait|union <Name>
//!   macro_rules <name>
//!   macro <name> [#n]                   n-th top-level invocation `name!{..}` (item position)
//!   impl <Type> [only a,b|except a,b]   inherent impls of Type
//!   impl <Trait> for <Type> [only..|except..]
//!   stmts <fnpath> ;; <start-pat> ;; <end-pat|$> ;; <signature of emitted fn>
//!   stmts1 ...                          same; `continue` of the enclosing source loop becomes `return`
//!   expr  <fnpath> ;; <pat> ;; <signature of emitted fn>
//!   expr1 ...                           same; value wrapped in Some(..), `continue` of the enclosing loop becomes `return None`
//!   closure <fnpath> ;; <pat> ;; <signature> ;; <call args>   closure expression applied: `(<closure>)(<args>)`
//!   macro_block <fnpath> ;; <macro> ;; <anchor> ;; <signature> ;; <ret>   `{..}` arm inside a macro (tokio::select!)
//!   items_in <fnpath> ;; <prefix>       item statements declared inside a fn body, emitted at module level
//!   ifcond <fnpath> ;; <stmt prefix> ;; <signature>   the condition of the `if` a statement starts with
//!   sql   <fnpath> ;; <pat> ;; <CONST_NAME>      string literal starting with pat -> pub const
//! <fnpath> is `name` or `Type::name` or `Trait@Type::name`. A pattern matches a statement or
//! expression whose whitespace-free token text starts with the whitespace-free pattern; `#n`
//! appended to a pattern picks the n-th match (1-based) in source order.
//!
//! Only attributes are rewritten (see `clean_attrs`).  A selector that matches nothing is a hard
//! error: exit 3 with a line starting `SLICE-ERROR`.

use proc_macro2::TokenStream;
use quote::{quote, ToTokens};
use std::{collections::{BTreeMap, BTreeSet}, fmt::Write as _, fs, path::Path, process::exit};
use syn::{
    visit::{self, Visit},
    visit_mut::{self, VisitMut},
    Attribute, Block, Expr, ImplItem, Item, ItemFn, ItemImpl, Meta, Stmt, Type,
};

fn die(msg: &str) -> ! {
    println!("SLICE-ERROR {msg}");
    eprintln!("SLICE-ERROR {msg}");
    exit(3)
}

fn strip_ws(s: &str) -> String {
    s.chars().filter(|c| !c.is_whitespace()).collect()
}

fn tok<T: ToTokens>(t: &T) -> String {
    strip_ws(&t.to_token_stream().to_string())
}

const KEEP_DERIVES: &[&str] = &[
    "Debug",
    "Clone",
    "Copy",
    "Eq",
    "PartialEq",
    "Ord",
    "PartialOrd",
    "Hash",
    "Default",
    "Readable",
    "Writable",
];
const KEEP_ATTRS: &[&str] = &[
    "derive",
    "inline",
    "allow",
    "must_use",
    "repr",
    "speedy",
    "default",
    "cfg",
    "doc",
    "macro_export",
];

struct AttrCleaner;
thread_local! {
    /// extra derives to drop, set by a `strip_derives A B ..` spec line (crates without speedy)
    static STRIP_DERIVES: std::cell::RefCell<Vec<String>> = const { std::cell::RefCell::new(Vec::new()) };
}
fn clean_attrs(attrs: &mut Vec<Attribute>) {
    attrs.retain_mut(|a| {
        let name = a.path().segments.last().map(|s| s.ident.to_string()).unwrap_or_default();
        let first = a.path().segments.first().map(|s| s.ident.to_string()).unwrap_or_default();
        if first == "tracing" || first == "serde" {
            return false;
        }
        if name == "doc" {
            return false;
        }
        if !KEEP_ATTRS.contains(&name.as_str()) {
            return false;
        }
        if name == "derive" {
            if let Meta::List(list) = &mut a.meta {
                let parsed: syn::punctuated::Punctuated<syn::Path, syn::Token![,]> = list
                    .parse_args_with(syn::punctuated::Punctuated::parse_terminated)
                    .unwrap_or_default();
                let kept: Vec<&syn::Path> = parsed
                    .iter()
                    .filter(|p| {
                        let n = p.segments.last().unwrap().ident.to_string();
                        KEEP_DERIVES.contains(&n.as_str()) && !STRIP_DERIVES.with(|s| s.borrow().contains(&n))
                    })
                    .collect();
                if kept.is_empty() {
                    return false;
                }
                list.tokens = quote!(#(#kept),*);
            }
        }
        true
    });
}
impl VisitMut for AttrCleaner {
    fn visit_attributes_mut(&mut self, attrs: &mut Vec<Attribute>) {
        clean_attrs(attrs);
    }
    fn visit_item_struct_mut(&mut self, i: &mut syn::ItemStruct) {
        clean_attrs(&mut i.attrs);
        visit_mut::visit_item_struct_mut(self, i);
    }
    fn visit_item_enum_mut(&mut self, i: &mut syn::ItemEnum) {
        clean_attrs(&mut i.attrs);
        visit_mut::visit_item_enum_mut(self, i);
    }
    fn visit_item_fn_mut(&mut self, i: &mut ItemFn) {
        clean_attrs(&mut i.attrs);
        visit_mut::visit_item_fn_mut(self, i);
    }
    fn visit_impl_item_fn_mut(&mut self, i: &mut syn::ImplItemFn) {
        clean_attrs(&mut i.attrs);
        visit_mut::visit_impl_item_fn_mut(self, i);
    }
    fn visit_field_mut(&mut self, i: &mut syn::Field) {
        clean_attrs(&mut i.attrs);
        visit_mut::visit_field_mut(self, i);
    }
    fn visit_variant_mut(&mut self, i: &mut syn::Variant) {
        clean_attrs(&mut i.attrs);
        visit_mut::visit_variant_mut(self, i);
    }
    fn visit_item_impl_mut(&mut self, i: &mut ItemImpl) {
        clean_attrs(&mut i.attrs);
        visit_mut::visit_item_impl_mut(self, i);
    }
    fn visit_item_const_mut(&mut self, i: &mut syn::ItemConst) {
        clean_attrs(&mut i.attrs);
        visit_mut::visit_item_const_mut(self, i);
    }
    fn visit_item_trait_mut(&mut self, i: &mut syn::ItemTrait) {
        clean_attrs(&mut i.attrs);
        visit_mut::visit_item_trait_mut(self, i);
    }
}

fn is_cfg_test(attrs: &[Attribute]) -> bool {
    attrs.iter().any(|a| a.path().is_ident("cfg") && tok(&a.meta).contains("test"))
}

fn type_last_ident(t: &Type) -> Option<String> {
    match t {
        Type::Path(p) => p.path.segments.last().map(|s| s.ident.to_string()),
        Type::Reference(r) => type_last_ident(&r.elem),
        Type::Paren(p) => type_last_ident(&p.elem),
        _ => None,
    }
}

fn impl_matches(i: &ItemImpl, tr: Option<&str>, ty: &str) -> bool {
    if type_last_ident(&i.self_ty).as_deref() != Some(ty) {
        return false;
    }
    match (tr, &i.trait_) {
        (None, None) => true,
        (Some(t), Some((_, p, _))) => p.segments.last().map(|s| s.ident == t).unwrap_or(false),
        _ => false,
    }
}

fn impl_item_name(ii: &ImplItem) -> Option<String> {
    match ii {
        ImplItem::Fn(f) => Some(f.sig.ident.to_string()),
        ImplItem::Const(c) => Some(c.ident.to_string()),
        ImplItem::Type(t) => Some(t.ident.to_string()),
        _ => None,
    }
}

struct Source {
    path: String,
    file: syn::File,
}

/// find the block of a function addressed by fnpath
fn find_fn_block<'a>(src: &'a Source, fnpath: &str) -> &'a Block {
    let (ty, name) = match fnpath.rsplit_once("::") {
        Some((t, n)) => (Some(t), n),
        None => (None, fnpath),
    };
    let mut found: Vec<&Block> = vec![];
    for it in &src.file.items {
        match (it, ty) {
            (Item::Fn(f), None) if f.sig.ident == name && !is_cfg_test(&f.attrs) => found.push(&f.block),
            (Item::Impl(i), Some(t)) => {
                let (tr, tyn) = match t.split_once('@') {
                    Some((tr, tyn)) => (Some(tr), tyn),
                    None => (None, t),
                };
                if impl_matches(i, tr, tyn) {
                    for ii in &i.items {
                        if let ImplItem::Fn(f) = ii {
                            if f.sig.ident == name {
                                found.push(&f.block);
                            }
                        }
                    }
                }
            }
            _ => {}
        }
    }
    if found.len() != 1 {
        die(&format!("{}: function `{fnpath}` matched {} times", src.path, found.len()));
    }
    found[0]
}

fn split_nth(pat: &str) -> (String, usize) {
    let p = pat.trim();
    if let Some((a, b)) = p.rsplit_once('#') {
        if let Ok(n) = b.trim().parse::<usize>() {
            return (strip_ws(a), n);
        }
    }
    (strip_ws(p), 1)
}

/// the ONE token rewrite besides attribute cleaning: in `stmts1` / `expr1` slices, `continue`
/// expressions that target the loop ENCLOSING the slice (i.e. not nested in a loop inside it)
/// are replaced by an early return, because the slice is emitted as a function body.
struct ContinueRewriter {
    depth: usize,
    with: Expr,
    /// also rewrite a bare `return;` (of the function the slice was cut from) into `return <ret>`
    bare_return: Option<Expr>,
    closure_depth: usize,
}
impl VisitMut for ContinueRewriter {
    fn visit_expr_mut(&mut self, e: &mut Expr) {
        match e {
            Expr::Continue(c) => {
                if self.depth == 0 || c.label.is_some() {
                    *e = self.with.clone();
                }
            }
            Expr::Return(r) if r.expr.is_none() && self.closure_depth == 0 => {
                if let Some(w) = &self.bare_return {
                    *e = w.clone();
                }
            }
            Expr::ForLoop(_) | Expr::While(_) | Expr::Loop(_) => {
                self.depth += 1;
                visit_mut::visit_expr_mut(self, e);
                self.depth -= 1;
            }
            Expr::Closure(_) | Expr::Async(_) => {
                // a `continue` / `return` cannot cross a closure / async block boundary
                let d = std::mem::replace(&mut self.depth, 1);
                self.closure_depth += 1;
                visit_mut::visit_expr_mut(self, e);
                self.closure_depth -= 1;
                self.depth = d;
            }
            _ => visit_mut::visit_expr_mut(self, e),
        }
    }
}

/// token streams of every invocation of a macro (by last path segment) inside a block
struct MacroFinder {
    name: String,
    found: Vec<TokenStream>,
}
impl<'a> Visit<'a> for MacroFinder {
    fn visit_macro(&mut self, m: &'a syn::Macro) {
        if m.path.segments.last().map(|s| s.ident == self.name).unwrap_or(false) {
            self.found.push(m.tokens.clone());
        }
    }
}
/// first brace group whose preceding tokens (since the previous brace group / start) end with
/// `=>` and contain the anchor text
fn brace_group_after(ts: TokenStream, anchor: &str) -> Option<Block> {
    use proc_macro2::{Delimiter, TokenTree};
    let mut acc = String::new();
    for t in ts {
        match &t {
            TokenTree::Group(g) if g.delimiter() == Delimiter::Brace => {
                if acc.contains(anchor) && acc.ends_with("=>") {
                    let b: Result<Block, _> = syn::parse2(t.to_token_stream());
                    if let Ok(b) = b {
                        return Some(b);
                    }
                }
                acc.clear();
            }
            other => acc.push_str(&strip_ws(&other.to_string())),
        }
    }
    None
}

/// second documented rewrite: when a slice that contains `.await` is emitted with a NON-async
/// signature, `expr.await` becomes `expr` (the stand-ins it awaits are plain functions that return
/// the value an always-ready future would yield; single-task semantics, no interleaving claim)
struct AwaitStripper;
impl VisitMut for AwaitStripper {
    fn visit_expr_mut(&mut self, e: &mut Expr) {
        visit_mut::visit_expr_mut(self, e);
        if let Expr::Await(a) = e {
            let base = (*a.base).clone();
            *e = base;
        }
    }
}

struct StmtFinder<'a> {
    start: String,
    nth: usize,
    seen: usize,
    end: String,
    result: Option<Vec<&'a Stmt>>,
    err: Option<String>,
}
impl<'a> Visit<'a> for StmtFinder<'a> {
    fn visit_block(&mut self, b: &'a Block) {
        if self.result.is_some() {
            return;
        }
        for (i, s) in b.stmts.iter().enumerate() {
            if tok(s).starts_with(&self.start) {
                self.seen += 1;
                if self.seen == self.nth {
                    let j = if self.end == "$" {
                        Some(b.stmts.len() - 1)
                    } else {
                        (i..b.stmts.len()).find(|&j| tok(&b.stmts[j]).starts_with(&self.end))
                    };
                    match j {
                        Some(j) => self.result = Some(b.stmts[i..=j].iter().collect()),
                        None => self.err = Some("end pattern not found among following sibling statements".into()),
                    }
                    return;
                }
            }
        }
        visit::visit_block(self, b);
    }
}

struct ExprFinder<'a> {
    pat: String,
    nth: usize,
    seen: usize,
    result: Option<&'a Expr>,
}
impl<'a> Visit<'a> for ExprFinder<'a> {
    fn visit_expr(&mut self, e: &'a Expr) {
        if self.result.is_some() {
            return;
        }
        if tok(e).starts_with(&self.pat) {
            self.seen += 1;
            if self.seen == self.nth {
                self.result = Some(e);
                return;
            }
        }
        visit::visit_expr(self, e);
    }
}

struct LitFinder {
    pat: String,
    nth: usize,
    seen: usize,
    result: Option<String>,
}
impl<'a> Visit<'a> for LitFinder {
    fn visit_lit_str(&mut self, l: &'a syn::LitStr) {
        if self.result.is_some() {
            return;
        }
        if strip_ws(&l.value()).starts_with(&self.pat) {
            self.seen += 1;
            if self.seen == self.nth {
                self.result = Some(l.value());
            }
        }
    }
    // string literals inside macro invocations (e.g. format!/named_params!) are tokens; look inside
    fn visit_macro(&mut self, m: &'a syn::Macro) {
        fn walk(ts: TokenStream, f: &mut LitFinder) {
            for t in ts {
                match t {
                    proc_macro2::TokenTree::Group(g) => walk(g.stream(), f),
                    proc_macro2::TokenTree::Literal(l) => {
                        if let Ok(ls) = syn::parse2::<syn::LitStr>(l.to_token_stream()) {
                            f.visit_lit_str(&ls);
                        }
                    }
                    _ => {}
                }
            }
        }
        walk(m.tokens.clone(), self);
    }
}

#[derive(Default)]
struct Output {
    name: String,
    items: Vec<Item>,
    manifest: Vec<(String, String, String)>, // (file, selector, text)
    wrap_impl: Option<String>,
}

fn json_escape(s: &str) -> String {
    let mut o = String::with_capacity(s.len() + 2);
    for c in s.chars() {
        match c {
            '"' => o.push_str("\\\""),
            '\\' => o.push_str("\\\\"),
            '\n' => o.push_str("\\n"),
            '\r' => o.push_str("\\r"),
            '\t' => o.push_str("\\t"),
            c if (c as u32) < 0x20 => {
                let _ = write!(o, "\\u{:04x}", c as u32);
            }
            c => o.push(c),
        }
    }
    o
}

fn flush(out: &mut Output, out_dir: &Path, index: &mut Vec<String>) {
    if out.name.is_empty() {
        return;
    }
    let mut items = std::mem::take(&mut out.items);
    for it in items.iter_mut() {
        AttrCleaner.visit_item_mut(it);
    }
    if let Some(ty) = &out.wrap_impl {
        let ty: syn::Type = syn::parse_str(ty).unwrap_or_else(|e| die(&format!("out {}: bad impl type: {e}", out.name)));
        let wrapped: Item = syn::parse2(quote::quote! { impl #ty { #(#items)* } })
            .unwrap_or_else(|e| die(&format!("out {}: cannot wrap in impl: {e}", out.name)));
        items = vec![wrapped];
    }
    let file = syn::File { shebang: None, attrs: vec![], items };
    // exact printer: the token stream itself, laid out one statement per line (no pretty-printer
    // liberties such as added braces or trailing commas)
    let mut text = String::new();
    render(file.to_token_stream(), 0, &mut text);
    // self-test: the output must re-parse to the identical token stream
    let re = syn::parse_file(&text).unwrap_or_else(|e| die(&format!("re-parse of {} failed: {e}", out.name)));
    let (a, b) = (tok(&re), tok(&file));
    if a != b {
        let i = a.chars().zip(b.chars()).position(|(x, y)| x != y).unwrap_or(a.len().min(b.len()));
        let lo = i.saturating_sub(60);
        let sa: String = a.chars().skip(lo).take(140).collect();
        let sb: String = b.chars().skip(lo).take(140).collect();
        die(&format!("printer round-trip changed tokens in {}: printed `{}` vs source `{}`", out.name, sa, sb));
    }
    let header = "// GENERATED by /verif/slicer from /repo on every run — do not edit, do not commit.\n";
    fs::write(out_dir.join(&out.name), format!("{header}{text}")).unwrap();
    for (file, sel, text) in out.manifest.drain(..) {
        index.push(format!(
            "{{\"out\":\"{}\",\"file\":\"{}\",\"selector\":\"{}\",\"tokens\":\"{}\"}}",
            json_escape(&out.name),
            json_escape(&file),
            json_escape(&sel),
            json_escape(&text)
        ));
    }
    out.name.clear();
}

fn render(ts: TokenStream, depth: usize, out: &mut String) {
    render_in(ts, depth, out, true)
}

fn render_in(ts: TokenStream, depth: usize, out: &mut String, in_brace: bool) {
    use proc_macro2::{Delimiter, Spacing, TokenTree};
    let indent = |out: &mut String, d: usize| {
        if out.ends_with('\n') {
            for _ in 0..d {
                out.push_str("    ");
            }
        }
    };
    for t in ts {
        match t {
            TokenTree::Group(g) => {
                let (o, c) = match g.delimiter() {
                    Delimiter::Parenthesis => ("(", ")"),
                    Delimiter::Brace => ("{", "}"),
                    Delimiter::Bracket => ("[", "]"),
                    Delimiter::None => ("", ""),
                };
                indent(out, depth);
                out.push_str(o);
                if g.delimiter() == Delimiter::Brace {
                    out.push('\n');
                    render_in(g.stream(), depth + 1, out, true);
                    if !out.ends_with('\n') {
                        out.push('\n');
                    }
                    indent(out, depth);
                    out.push_str(c);
                    out.push('\n');
                } else {
                    render_in(g.stream(), depth, out, false);
                    out.push_str(c);
                    out.push(' ');
                }
            }
            TokenTree::Punct(p) => {
                indent(out, depth);
                out.push(p.as_char());
                if p.as_char() == ';' || (p.as_char() == ',' && in_brace) {
                    out.push('\n');
                } else if p.spacing() == Spacing::Alone {
                    out.push(' ');
                }
            }
            other => {
                indent(out, depth);
                out.push_str(&other.to_string());
                out.push(' ');
            }
        }
    }
}

fn parse_filter(rest: &str) -> (String, Option<(bool, Vec<String>)>) {
    // returns (head, Some((is_only, names)))
    for (kw, only) in [(" only ", true), (" except ", false)] {
        if let Some((h, l)) = rest.split_once(kw) {
            return (
                h.trim().to_string(),
                Some((only, l.split(',').map(|s| s.trim().to_string()).filter(|s| !s.is_empty()).collect())),
            );
        }
    }
    (rest.trim().to_string(), None)
}

/// identifiers in call position (`name (`), not preceded by `.`, `::` or `fn`
fn called_idents(ts: proc_macro2::TokenStream, out: &mut Vec<String>) {
    use proc_macro2::{Delimiter, TokenTree};
    let toks: Vec<TokenTree> = ts.into_iter().collect();
    for (i, t) in toks.iter().enumerate() {
        match t {
            TokenTree::Group(g) => called_idents(g.stream(), out),
            TokenTree::Ident(id) => {
                let next_is_call = matches!(toks.get(i + 1), Some(TokenTree::Group(g)) if g.delimiter() == Delimiter::Parenthesis);
                let prev_ok = match i.checked_sub(1).and_then(|j| toks.get(j)) {
                    Some(TokenTree::Punct(p)) => p.as_char() != '.' && p.as_char() != ':',
                    Some(TokenTree::Ident(p)) => p != "fn",
                    _ => true,
                };
                if next_is_call && prev_ok {
                    out.push(id.to_string());
                }
            }
            _ => {}
        }
    }
}
/// every name a host source file defines or imports (functions, types, macros, use leaves)
fn collect_defined_names(text: &str, names: &mut BTreeSet<String>) {
    use proc_macro2::TokenTree;
    fn walk(ts: proc_macro2::TokenStream, names: &mut BTreeSet<String>) {
        let toks: Vec<TokenTree> = ts.into_iter().collect();
        for (i, t) in toks.iter().enumerate() {
            match t {
                TokenTree::Group(g) => walk(g.stream(), names),
                TokenTree::Ident(id) => {
                    let kw = id.to_string();
                    if ["fn", "struct", "enum", "type", "const", "static", "trait", "macro_rules", "mod"].contains(&kw.as_str()) {
                        // `macro_rules ! name`, otherwise `kw name`
                        let mut j = i + 1;
                        if let Some(TokenTree::Punct(p)) = toks.get(j) {
                            if p.as_char() == '!' {
                                j += 1;
                            }
                        }
                        if let Some(TokenTree::Ident(n)) = toks.get(j) {
                            names.insert(n.to_string());
                        }
                    }
                    if kw == "use" {
                        // every identifier up to the terminating `;` (over-approximation is fine)
                        for t2 in &toks[i + 1..] {
                            match t2 {
                                TokenTree::Punct(p) if p.as_char() == ';' => break,
                                TokenTree::Ident(n) => {
                                    names.insert(n.to_string());
                                }
                                TokenTree::Group(g) => {
                                    for t3 in g.stream() {
                                        if let TokenTree::Ident(n) = t3 {
                                            names.insert(n.to_string());
                                        }
                                    }
                                }
                                _ => {}
                            }
                        }
                    }
                }
                _ => {}
            }
        }
    }
    if let Ok(ts) = text.parse::<proc_macro2::TokenStream>() {
        walk(ts, names);
    }
}

fn main() {
    let args: Vec<String> = std::env::args().collect();
    if args.len() != 4 {
        eprintln!("usage: slicer <repo-root> <spec-file> <out-dir>");
        exit(3);
    }
    let repo = Path::new(&args[1]);
    let spec = fs::read_to_string(&args[2]).unwrap_or_else(|e| die(&format!("spec {}: {e}", args[2])));
    let out_dir = Path::new(&args[3]);
    fs::create_dir_all(out_dir).unwrap();

    let mut cache: BTreeMap<String, Source> = BTreeMap::new();
    let mut cur_file: Option<String> = None;
    let mut out = Output::default();
    let mut index: Vec<String> = vec![];
    // `autodeps`: a sliced function that calls a free function of the same source file which
    // neither the host module nor an earlier slice defines gets that function sliced in as well
    // (a refactoring that moves a comparison into a new helper must not blind the check)
    let mut autodeps = false;
    let mut emitted: BTreeSet<String> = BTreeSet::new();
    let mut auto_emitted: BTreeSet<String> = BTreeSet::new();
    let host_defs: BTreeSet<String> = {
        let mut names = BTreeSet::new();
        let host = Path::new(&args[2]).parent().map(|d| d.join("src")).unwrap_or_default();
        for f in ["lib.rs", "proofs.rs", "db.rs"] {
            if let Ok(text) = fs::read_to_string(host.join(f)) {
                collect_defined_names(&text, &mut names);
            }
        }
        names
    };

    for (lineno, raw) in spec.lines().enumerate() {
        let line = raw.trim();
        if line.is_empty() || line.starts_with('#') {
            continue;
        }
        let (kw, rest) = line.split_once(char::is_whitespace).unwrap_or((line, ""));
        let rest = rest.trim();
        let ctx = format!("spec line {}: `{}`", lineno + 1, line);
        match kw {
            "out" => {
                flush(&mut out, out_dir, &mut index);
                // `out file.rs [impl Type]`: the functions sliced into this file are emitted inside
                // `impl Type { … }` (for statement slices that mention `self`)
                match rest.split_once(" impl ") {
                    Some((n, ty)) => {
                        out.name = n.trim().to_string();
                        out.wrap_impl = Some(ty.trim().to_string());
                    }
                    None => {
                        out.name = rest.to_string();
                        out.wrap_impl = None;
                    }
                }
                continue;
            }
            "autodeps" => {
                autodeps = true;
                continue;
            }
            "strip_derives" => {
                STRIP_DERIVES.with(|s| s.borrow_mut().extend(rest.split_whitespace().map(|x| x.to_string())));
                continue;
            }
            "file" => {
                if !cache.contains_key(rest) {
                    let p = repo.join(rest);
                    let text = fs::read_to_string(&p).unwrap_or_else(|e| die(&format!("{ctx}: {e}")));
                    let file = syn::parse_file(&text).unwrap_or_else(|e| die(&format!("{ctx}: parse: {e}")));
                    cache.insert(rest.to_string(), Source { path: rest.to_string(), file });
                }
                cur_file = Some(rest.to_string());
                continue;
            }
            _ => {}
        }
        if out.name.is_empty() {
            die(&format!("{ctx}: no `out` yet"));
        }
        let src = match &cur_file {
            Some(f) => &cache[f],
            None => die(&format!("{ctx}: no `file` yet")),
        };
        let before = out.items.len();
        match kw {
            "struct" | "enum" | "fn" | "const" | "static" | "type" | "trait" | "union" | "macro_rules" => {
                for it in &src.file.items {
                    let hit = match (kw, it) {
                        ("struct", Item::Struct(s)) => s.ident == rest && !is_cfg_test(&s.attrs),
                        ("enum", Item::Enum(s)) => s.ident == rest,
                        ("fn", Item::Fn(s)) => s.sig.ident == rest && !is_cfg_test(&s.attrs),
                        ("const", Item::Const(s)) => s.ident == rest,
                        ("static", Item::Static(s)) => s.ident == rest,
                        ("type", Item::Type(s)) => s.ident == rest,
                        ("trait", Item::Trait(s)) => s.ident == rest,
                        ("union", Item::Union(s)) => s.ident == rest,
                        ("macro_rules", Item::Macro(m)) => {
                            m.mac.path.is_ident("macro_rules") && m.ident.as_ref().map(|i| i == rest).unwrap_or(false)
                        }
                        _ => false,
                    };
                    if hit {
                        out.items.push(it.clone());
                    }
                }
            }
            "macro" => {
                let (name, nth) = match rest.rsplit_once('#') {
                    Some((a, b)) => (a.trim().to_string(), b.trim().parse::<usize>().unwrap_or(1)),
                    None => (rest.to_string(), 0),
                };
                let mut seen = 0;
                for it in &src.file.items {
                    if let Item::Macro(m) = it {
                        if m.ident.is_none() && m.mac.path.segments.last().map(|s| s.ident == name).unwrap_or(false) {
                            seen += 1;
                            if nth == 0 || seen == nth {
                                out.items.push(it.clone());
                            }
                        }
                    }
                }
            }
            "impl" => {
                let (head, filter) = parse_filter(rest);
                let (tr, ty) = match head.split_once(" for ") {
                    Some((t, y)) => (Some(t.trim().to_string()), y.trim().to_string()),
                    None => (None, head.clone()),
                };
                let mut wanted_found: Vec<String> = vec![];
                for it in &src.file.items {
                    if let Item::Impl(i) = it {
                        if is_cfg_test(&i.attrs) || !impl_matches(i, tr.as_deref(), &ty) {
                            continue;
                        }
                        let mut i2 = i.clone();
                        if let Some((only, names)) = &filter {
                            i2.items.retain(|ii| {
                                let n = impl_item_name(ii).unwrap_or_default();
                                let listed = names.contains(&n);
                                if listed {
                                    wanted_found.push(n);
                                }
                                listed == *only
                            });
                            if i2.items.is_empty() && *only {
                                continue;
                            }
                        }
                        out.items.push(Item::Impl(i2));
                    }
                }
                if let Some((_, names)) = &filter {
                    for n in names {
                        if !wanted_found.contains(n) {
                            die(&format!("{ctx}: `{n}` not found in impl {head}"));
                        }
                    }
                }
            }
            "stmts" | "stmts1" => {
                let parts: Vec<&str> = rest.split(";;").map(|s| s.trim()).collect();
                if parts.len() != 4 && !(kw == "stmts1" && (parts.len() == 5 || parts.len() == 6)) {
                    die(&format!("{ctx}: stmts needs 4 `;;`-separated parts (stmts1: optional 5th = return expression)"));
                }
                let block = find_fn_block(src, parts[0]);
                let (start, nth) = split_nth(parts[1]);
                let end = if parts[2] == "$" { "$".to_string() } else { strip_ws(parts[2]) };
                let mut f = StmtFinder { start, nth, seen: 0, end, result: None, err: None };
                f.visit_block(block);
                let stmts = match (f.result, f.err) {
                    (Some(s), _) => s,
                    (None, Some(e)) => die(&format!("{ctx}: {e}")),
                    (None, None) => die(&format!("{ctx}: start pattern not found")),
                };
                let sig: syn::Signature =
                    syn::parse_str(parts[3]).unwrap_or_else(|e| die(&format!("{ctx}: bad signature: {e}")));
                // `stmts1`: the range comes from a loop body: a `continue` of the enclosing SOURCE loop
                // (not of a loop inside the range) becomes `return`
                let item: ItemFn = if kw == "stmts1" {
                    let mut stmts: Vec<Stmt> = stmts.into_iter().cloned().collect();
                    // optional 5th part: the value returned at the end of the range and at every
                    // rewritten `continue` (lets by-value state such as counters flow back out)
                    let ret: Option<Expr> = parts.get(4).map(|r| {
                        syn::parse_str(r).unwrap_or_else(|e| die(&format!("{ctx}: bad return expression: {e}")))
                    });
                    // optional 6th part: the value returned where the source `continue`s (default: ret)
                    let cont_val: Option<Expr> = parts.get(5).map(|r| {
                        syn::parse_str(r).unwrap_or_else(|e| die(&format!("{ctx}: bad continue value: {e}")))
                    });
                    let with: Expr = match (&cont_val, &ret) {
                        (Some(c), _) => syn::parse_quote!(return #c),
                        (None, Some(r)) => syn::parse_quote!(return #r),
                        (None, None) => syn::parse_quote!(return),
                    };
                    let bare_return: Option<Expr> = ret.as_ref().map(|r| syn::parse_quote!(return #r));
                    let mut rw = ContinueRewriter { depth: 0, with, bare_return, closure_depth: 0 };
                    for s in stmts.iter_mut() {
                        rw.visit_stmt_mut(s);
                    }
                    if sig.asyncness.is_none() {
                        for s in stmts.iter_mut() {
                            AwaitStripper.visit_stmt_mut(s);
                        }
                    }
                    match &ret {
                        Some(r) => syn::parse2(quote!(pub #sig { #(#stmts)* #r })).unwrap(),
                        None => syn::parse2(quote!(pub #sig { #(#stmts)* })).unwrap(),
                    }
                } else {
                    syn::parse2(quote!(pub #sig { #(#stmts)* })).unwrap()
                };
                out.items.push(Item::Fn(item));
            }
            "expr" | "expr1" => {
                let parts: Vec<&str> = rest.split(";;").map(|s| s.trim()).collect();
                if parts.len() != 3 {
                    die(&format!("{ctx}: expr needs 3 `;;`-separated parts"));
                }
                let block = find_fn_block(src, parts[0]);
                let (pat, nth) = split_nth(parts[1]);
                let mut f = ExprFinder { pat, nth, seen: 0, result: None };
                f.visit_block(block);
                let e = f.result.unwrap_or_else(|| die(&format!("{ctx}: expression pattern not found")));
                let sig: syn::Signature =
                    syn::parse_str(parts[2]).unwrap_or_else(|e| die(&format!("{ctx}: bad signature: {e}")));
                // `expr1`: a `continue` of the enclosing SOURCE loop becomes `return None`; the value
                // is wrapped in Some(..) (the emitted fn's signature returns Option<_>)
                let item: ItemFn = if kw == "expr1" {
                    let mut e = e.clone();
                    let mut rw = ContinueRewriter { depth: 0, with: syn::parse_quote!(return None), bare_return: None, closure_depth: 0 };
                    rw.visit_expr_mut(&mut e);
                    syn::parse2(quote!(pub #sig { Some(#e) })).unwrap()
                } else {
                    syn::parse2(quote!(pub #sig { #e })).unwrap()
                };
                out.items.push(Item::Fn(item));
            }
            "closure" => {
                // a closure expression applied to arguments: `fn sig { (<closure>)(<args>) }`
                let parts: Vec<&str> = rest.split(";;").map(|s| s.trim()).collect();
                if parts.len() != 4 {
                    die(&format!("{ctx}: closure needs 4 `;;`-separated parts (fn, pattern, signature, call args)"));
                }
                let block = find_fn_block(src, parts[0]);
                let (pat, nth) = split_nth(parts[1]);
                let mut f = ExprFinder { pat, nth, seen: 0, result: None };
                f.visit_block(block);
                let e = f.result.unwrap_or_else(|| die(&format!("{ctx}: closure pattern not found")));
                if !matches!(e, Expr::Closure(_)) {
                    die(&format!("{ctx}: matched expression is not a closure"));
                }
                let sig: syn::Signature =
                    syn::parse_str(parts[2]).unwrap_or_else(|e| die(&format!("{ctx}: bad signature: {e}")));
                let args: TokenStream =
                    syn::parse_str(parts[3]).unwrap_or_else(|e| die(&format!("{ctx}: bad call args: {e}")));
                // applied through a generic helper so that the closure's parameter types are inferred from
                // the argument, as they are from `.filter(..)` / `.filter_map(..)` at the source site
                let item: ItemFn = syn::parse2(quote!(pub #sig {
                    fn __verif_apply<A, R, F: FnOnce(A) -> R>(f: F, a: A) -> R { f(a) }
                    __verif_apply(#e, #args)
                })).unwrap();
                out.items.push(Item::Fn(item));
            }
            "macro_block" => {
                // a `{ .. }` block inside a macro invocation's token stream (e.g. an arm of
                // `tokio::select!`), found by the text that precedes it; emitted as a fn body.
                // `continue` of the loop enclosing the macro becomes `return <ret>`.
                let parts: Vec<&str> = rest.split(";;").map(|s| s.trim()).collect();
                if parts.len() != 5 {
                    die(&format!("{ctx}: macro_block needs 5 parts (fn, macro name, anchor text, signature, return expr)"));
                }
                let block = find_fn_block(src, parts[0]);
                let mut mf = MacroFinder { name: parts[1].to_string(), found: vec![] };
                mf.visit_block(block);
                let anchor = strip_ws(parts[2]);
                let mut hit: Option<Block> = None;
                for ts in mf.found.iter() {
                    if let Some(b) = brace_group_after(ts.clone(), &anchor) {
                        hit = Some(b);
                        break;
                    }
                }
                let mut b = hit.unwrap_or_else(|| die(&format!("{ctx}: no `{{..}}` block after `{}` in any `{}!` invocation", parts[2], parts[1])));
                let sig: syn::Signature =
                    syn::parse_str(parts[3]).unwrap_or_else(|e| die(&format!("{ctx}: bad signature: {e}")));
                if parts[4] == "@value" {
                    // the arm's block VALUE is what the select! yields: emit `ArmOutcome::Value(<block>)`;
                    // an outer `continue` becomes `return ArmOutcome::Continue`, a bare `return` becomes
                    // `return ArmOutcome::Return` (venv::ArmOutcome)
                    let cont: Expr = syn::parse_quote!(return ArmOutcome::Continue);
                    let retn: Expr = syn::parse_quote!(return ArmOutcome::Return);
                    let mut rw = ContinueRewriter { depth: 0, with: cont, bare_return: Some(retn), closure_depth: 0 };
                    rw.visit_block_mut(&mut b);
                    let item: ItemFn = syn::parse2(quote!(pub #sig { ArmOutcome::Value(#b) })).unwrap();
                    out.items.push(Item::Fn(item));
                } else {
                    let ret: Expr = syn::parse_str(parts[4]).unwrap_or_else(|e| die(&format!("{ctx}: bad return expression: {e}")));
                    let mut rw = ContinueRewriter { depth: 0, with: syn::parse_quote!(return #ret), bare_return: None, closure_depth: 0 };
                    rw.visit_block_mut(&mut b);
                    let stmts = &b.stmts;
                    let item: ItemFn = syn::parse2(quote!(pub #sig { #(#stmts)* #ret })).unwrap();
                    out.items.push(Item::Fn(item));
                }
            }
            "items_in" => {
                // item statements (consts, fns) declared INSIDE a function body, emitted at module level
                let parts: Vec<&str> = rest.split(";;").map(|s| s.trim()).collect();
                if parts.len() != 2 {
                    die(&format!("{ctx}: items_in needs 2 parts (fn, item name prefix pattern)"));
                }
                let block = find_fn_block(src, parts[0]);
                let pat = strip_ws(parts[1]);
                let mut n = 0;
                for st in &block.stmts {
                    if let Stmt::Item(it) = st {
                        if tok(it).starts_with(&pat) {
                            out.items.push(it.clone());
                            n += 1;
                        }
                    }
                }
                if n == 0 {
                    die(&format!("{ctx}: no item statement starting with `{}`", parts[1]));
                }
            }
            "ifcond" => {
                // the CONDITION of the `if` that a `let x = if <cond> {..} else {..};` statement (or an
                // `if` expression statement) starts with; anchored on the stable statement prefix
                let parts: Vec<&str> = rest.split(";;").map(|s| s.trim()).collect();
                if parts.len() != 3 {
                    die(&format!("{ctx}: ifcond needs 3 parts (fn, statement prefix, signature)"));
                }
                let block = find_fn_block(src, parts[0]);
                let (start, nth) = split_nth(parts[1]);
                let mut f = StmtFinder { start, nth, seen: 0, end: "$".to_string(), result: None, err: None };
                f.visit_block(block);
                let stmts = f.result.unwrap_or_else(|| die(&format!("{ctx}: statement not found")));
                let cond: Expr = match stmts[0] {
                    Stmt::Local(l) => match l.init.as_ref().map(|i| &*i.expr) {
                        Some(Expr::If(i)) => (*i.cond).clone(),
                        _ => die(&format!("{ctx}: the let statement is not initialised by an `if`")),
                    },
                    Stmt::Expr(Expr::If(i), _) => (*i.cond).clone(),
                    _ => die(&format!("{ctx}: statement is neither `let .. = if` nor `if`")),
                };
                let sig: syn::Signature =
                    syn::parse_str(parts[2]).unwrap_or_else(|e| die(&format!("{ctx}: bad signature: {e}")));
                let item: ItemFn = syn::parse2(quote!(pub #sig { #cond })).unwrap();
                out.items.push(Item::Fn(item));
            }
            "sql" => {
                let parts: Vec<&str> = rest.split(";;").map(|s| s.trim()).collect();
                if parts.len() != 3 {
                    die(&format!("{ctx}: sql needs 3 `;;`-separated parts"));
                }
                let block = find_fn_block(src, parts[0]);
                let (pat, nth) = split_nth(parts[1]);
                let mut f = LitFinder { pat, nth, seen: 0, result: None };
                f.visit_block(block);
                let v = f.result.unwrap_or_else(|| die(&format!("{ctx}: string literal not found")));
                let name = syn::Ident::new(parts[2], proc_macro2::Span::call_site());
                let item: Item = syn::parse2(quote!(pub const #name: &str = #v;)).unwrap();
                out.items.push(item);
            }
            other => die(&format!("{ctx}: unknown selector kind `{other}`")),
        }
        if out.items.len() == before {
            die(&format!("{ctx}: matched nothing in {}", src.path));
        }
        // a function this selector names may already be there because an earlier slice calls it
        // (autodeps): keep the first copy
        if kw == "fn" {
            let mut i = before;
            while i < out.items.len() {
                let dup = matches!(&out.items[i], Item::Fn(f) if auto_emitted.contains(&f.sig.ident.to_string()));
                if dup {
                    out.items.remove(i);
                } else {
                    i += 1;
                }
            }
        }
        for it in &out.items[before..] {
            if let Item::Fn(f) = it {
                emitted.insert(f.sig.ident.to_string());
            }
        }
        if autodeps {
            let mut from = before;
            loop {
                let mut wanted: Vec<String> = vec![];
                for it in &out.items[from..] {
                    called_idents(it.to_token_stream(), &mut wanted);
                }
                from = out.items.len();
                for name in wanted {
                    if emitted.contains(&name) || host_defs.contains(&name) {
                        continue;
                    }
                    for it in &src.file.items {
                        if let Item::Fn(f) = it {
                            if f.sig.ident == name && !is_cfg_test(&f.attrs) {
                                emitted.insert(name.clone());
                                auto_emitted.insert(name.clone());
                                out.items.push(it.clone());
                            }
                        }
                    }
                }
                if out.items.len() == from {
                    break;
                }
            }
        }
        for it in &out.items[before..] {
            let mut c = it.clone();
            AttrCleaner.visit_item_mut(&mut c);
            out.manifest.push((src.path.clone(), line.to_string(), c.to_token_stream().to_string()));
        }
    }
    flush(&mut out, out_dir, &mut index);
    fs::write(out_dir.join("slices.json"), format!("[\n{}\n]\n", index.join(",\n"))).unwrap();
}
