use klukai_types::api::SqliteValue;
use klukai_types::pubsub::{pack_columns, unpack_columns};
use klukai_types::sqlite::{rusqlite_to_crsqlite};

#[test]
fn pack_compat_with_extension() {
    let conn = rusqlite_to_crsqlite(rusqlite::Connection::open_in_memory().unwrap()).unwrap();
    for v in [0i64, 1, 127, 128, 255, 256, 32767, 32768, 65535, 65536, 1 << 23, (1 << 24) - 1, 1 << 31, (1u64 << 32) as i64, 1 << 39, 1 << 47, 1 << 55, i64::MAX, -1, -128, i64::MIN] {
        let ext: Vec<u8> = conn.query_row("select crsql_pack_columns(?)", [v], |r| r.get(0)).unwrap();
        let ours = pack_columns(&[SqliteValue::Integer(v)]).unwrap();
        let ext_unpacked: i64 = conn
            .query_row("select cell from crsql_unpack_columns where package = ?", [&ext], |r| r.get(0))
            .unwrap();
        let ours_unpacked = unpack_columns(&ext).map(|c| format!("{:?}", c[0].0)).unwrap_or_else(|e| format!("ERR {e:?}"));
        println!("{v}: ext={ext:02x?} ours={ours:02x?} ext_unpacked={ext_unpacked} ours_unpacked={ours_unpacked}");
        assert_eq!(ext, ours, "pack differs for {v}");
        assert_eq!(ext_unpacked, v);
        assert_eq!(ours_unpacked, format!("Integer({v})"), "unpack differs for {v}");
    }
    let long = "x".repeat(200);
    let ext: Vec<u8> = conn.query_row("select crsql_pack_columns(?)", [&long], |r| r.get(0)).unwrap();
    let ours = pack_columns(&[SqliteValue::Text(long.as_str().into())]).unwrap();
    assert_eq!(ext, ours);
    let un = unpack_columns(&ext).unwrap();
    assert_eq!(format!("{:?}", un[0].0), format!("{:?}", rusqlite::types::ValueRef::Text(long.as_bytes())));
}
