//! Native differential validation of the array-backed map stand-ins against std (trusted-base
//! validation only): every sequence of <= 5 operations over keys 0..=3 on BTreeMap, plus
//! IndexMap insertion order / shift_remove and Vec / VecDeque positional behaviour.
use std::collections::BTreeMap as StdB;
use venv::collections::{BTreeMap, IndexMap, Vec as AVec, VecDeque};

#[derive(Clone, Copy, Debug)]
enum Op {
    Ins(u8, u8),
    Rem(u8),
    Entry(u8),
}
fn ops() -> Vec<Op> {
    let mut v = vec![];
    for k in 0..4u8 {
        v.push(Op::Ins(k, k + 10));
        v.push(Op::Rem(k));
        v.push(Op::Entry(k));
    }
    v
}
fn run(seq: &[Op]) {
    let mut a: BTreeMap<u8, u8> = BTreeMap::new();
    let mut b: StdB<u8, u8> = StdB::new();
    for op in seq {
        match *op {
            Op::Ins(k, v) => assert_eq!(a.insert(k, v), b.insert(k, v)),
            Op::Rem(k) => assert_eq!(a.remove(&k), b.remove(&k)),
            Op::Entry(k) => {
                *a.entry(k).or_insert(0) += 1;
                *b.entry(k).or_insert(0) += 1;
            }
        }
        let x: Vec<(u8, u8)> = a.iter().map(|(k, v)| (*k, *v)).collect();
        let y: Vec<(u8, u8)> = b.iter().map(|(k, v)| (*k, *v)).collect();
        assert_eq!(x, y, "iteration order after {seq:?}");
        assert_eq!(a.first_key_value().map(|(k, v)| (*k, *v)), b.first_key_value().map(|(k, v)| (*k, *v)));
        assert_eq!(a.last_key_value().map(|(k, v)| (*k, *v)), b.last_key_value().map(|(k, v)| (*k, *v)));
        assert_eq!(a.len(), b.len());
        for k in 0..4u8 {
            assert_eq!(a.get(&k), b.get(&k));
            assert_eq!(a.contains_key(&k), b.contains_key(&k));
        }
        let xi: Vec<(u8, u8)> = a.clone().into_iter().collect();
        let yi: Vec<(u8, u8)> = b.clone().into_iter().collect();
        assert_eq!(xi, yi);
    }
}
#[test]
fn btreemap_all_short_sequences() {
    let all = ops();
    let mut n = 0u64;
    let mut idx = [0usize; 5];
    loop {
        let seq: Vec<Op> = idx.iter().map(|&i| all[i]).collect();
        run(&seq);
        n += 1;
        let mut p = 0;
        loop {
            idx[p] += 1;
            if idx[p] < all.len() {
                break;
            }
            idx[p] = 0;
            p += 1;
            if p == idx.len() {
                println!("btreemap sequences={n}");
                return;
            }
        }
    }
}
#[test]
fn indexmap_order_and_removals() {
    let mut m: IndexMap<u8, u8> = IndexMap::new();
    for k in [3u8, 1, 2, 0] {
        m.insert(k, k);
    }
    assert_eq!(m.iter().map(|(k, _)| *k).collect::<Vec<_>>(), vec![3, 1, 2, 0]);
    m.shift_remove(&1);
    assert_eq!(m.iter().map(|(k, _)| *k).collect::<Vec<_>>(), vec![3, 2, 0]);
    m.swap_remove(&3);
    assert_eq!(m.iter().map(|(k, _)| *k).collect::<Vec<_>>(), vec![0, 2]);
    m.insert(2, 9);
    assert_eq!(m.get(&2), Some(&9));
    assert_eq!(m.get_index(0), Some((&0, &0)));
    // split_off(at): tail moves out, head stays; truncate(n): first n stay (indexmap semantics)
    let mut m: IndexMap<u8, u8> = IndexMap::new();
    for k in [5u8, 6, 7, 8] {
        m.insert(k, k);
    }
    let tail = m.split_off(3);
    assert_eq!(tail.iter().map(|(k, _)| *k).collect::<Vec<_>>(), vec![8]);
    assert_eq!(m.iter().map(|(k, _)| *k).collect::<Vec<_>>(), vec![5, 6, 7]);
    m.truncate(1);
    assert_eq!(m.iter().map(|(k, _)| *k).collect::<Vec<_>>(), vec![5]);
    m.truncate(4);
    assert_eq!(m.len(), 1);
}
#[test]
fn vec_and_deque() {
    let mut v: AVec<u8> = AVec::new();
    for i in 0..5 {
        v.push(i);
    }
    assert_eq!(v.iter().copied().collect::<Vec<_>>(), vec![0, 1, 2, 3, 4]);
    v.retain(|x| x % 2 == 0);
    assert_eq!(v.iter().copied().collect::<Vec<_>>(), vec![0, 2, 4]);
    let d: Vec<u8> = v.drain(..).collect();
    assert_eq!(d, vec![0, 2, 4]);
    assert!(v.is_empty());
    let mut q: VecDeque<u8> = VecDeque::new();
    q.push_back(1);
    q.push_back(2);
    q.push_back(3);
    assert_eq!(q.pop_front(), Some(1));
    assert_eq!(q.pop_back(), Some(3));
    assert_eq!(q.len(), 1);
    assert_eq!(q.front(), Some(&2));
}
