//! Native differential validation of the array-backed stand-in against the real `rangemap` crate
//! on an exhaustive small domain (values 0..=6: every subset, every operand range, including
//! backwards operand ranges for the read-only queries).  Validation of the trusted base only —
//! it decides no property.
use std::ops::RangeInclusive;
use venv::rangemap::RangeInclusiveSet as S;

const D: u8 = 7;

fn build(mask: u8) -> (S<u8>, rangemap::RangeInclusiveSet<u8>) {
    let mut a = S::new();
    let mut b = rangemap::RangeInclusiveSet::new();
    // insert single points in a scrambled order so that coalescing is exercised
    for k in [3u8, 0, 6, 1, 5, 2, 4] {
        if mask & (1 << k) != 0 {
            a.insert(k..=k);
            b.insert(k..=k);
        }
    }
    (a, b)
}
fn same(a: &S<u8>, b: &rangemap::RangeInclusiveSet<u8>) {
    let x: Vec<RangeInclusive<u8>> = a.iter().cloned().collect();
    let y: Vec<RangeInclusive<u8>> = b.iter().cloned().collect();
    assert_eq!(x, y);
    assert_eq!(a.len(), b.len());
    assert_eq!(a.is_empty(), b.is_empty());
    assert_eq!(a.first(), b.first());
    assert_eq!(a.last(), b.last());
    let xr: Vec<_> = a.iter().rev().cloned().collect();
    let yr: Vec<_> = b.iter().rev().cloned().collect();
    assert_eq!(xr, yr);
}

#[test]
fn exhaustive_small_domain() {
    let mut cases = 0u64;
    for mask in 0u8..(1 << D) {
        let (a, b) = build(mask);
        same(&a, &b);
        for v in 0..=D {
            assert_eq!(a.get(&v), b.get(&v));
            assert_eq!(a.contains(&v), b.contains(&v));
        }
        for s in 0..=D {
            for e in 0..=D {
                let q = s..=e;
                // read-only queries accept backwards ranges in the real crate
                let x: Vec<_> = a.overlapping(&q).cloned().collect();
                let y: Vec<_> = b.overlapping(&q).cloned().collect();
                assert_eq!(x, y, "overlapping mask={mask:b} q={q:?}");
                assert_eq!(a.overlaps(&q), b.overlaps(&q));
                let x: Vec<_> = a.gaps(&q).collect();
                let y: Vec<_> = b.gaps(&q).collect();
                assert_eq!(x, y, "gaps mask={mask:b} q={q:?}");
                cases += 2;
                if s <= e && e < D {
                    let (mut a1, mut b1) = build(mask);
                    a1.insert(q.clone());
                    b1.insert(q.clone());
                    same(&a1, &b1);
                    let (mut a2, mut b2) = build(mask);
                    a2.remove(q.clone());
                    b2.remove(q.clone());
                    same(&a2, &b2);
                    // extend / from_iter / into_iter
                    let (mut a3, mut b3) = build(mask);
                    a3.extend([q.clone(), 0..=0]);
                    b3.extend([q.clone(), 0..=0]);
                    same(&a3, &b3);
                    let xi: Vec<_> = a3.clone().into_iter().collect();
                    let yi: Vec<_> = b3.clone().into_iter().collect();
                    assert_eq!(xi, yi);
                    cases += 3;
                }
            }
        }
    }
    println!("diff_rangemap cases={cases}");
}

#[test]
#[should_panic]
fn insert_backwards_panics_like_rangemap() {
    let mut a: S<u8> = S::new();
    a.insert(3..=2);
}
#[test]
#[should_panic]
fn real_insert_backwards_panics() {
    let mut b: rangemap::RangeInclusiveSet<u8> = rangemap::RangeInclusiveSet::new();
    b.insert(3..=2);
}
#[test]
#[should_panic]
fn remove_backwards_panics_like_rangemap() {
    let mut a: S<u8> = S::new();
    a.remove(3..=2);
}
