//! Array-backed, heap-free stand-in for `rangemap::RangeInclusiveSet` (rangemap 1.6.0 semantics):
//! stored ranges are kept sorted, pairwise disjoint and non-adjacent; `insert` coalesces
//! overlapping *and adjacent* ranges, `remove` splits.  Capacity is `CAP`; exceeding it is a hard
//! failure (`capacity_exceeded`), never a silent truncation.
//!
//! Validated (a) natively against the real crate on exhaustive small domains
//! (`/verif/env/tests/diff_rangemap.rs`) and (b) by Kani against a bitmask model
//! (`/verif/harness/ENV`).

use core::borrow::Borrow;
use core::ops::RangeInclusive;

/// capacity of every stand-in container, fixed at compile time through `VENV_CAP` (default 4)
pub const CAP: usize = parse_cap(option_env!("VENV_CAP"));

const fn parse_cap(s: Option<&str>) -> usize {
    match s {
        None => 4,
        Some(s) => {
            let b = s.as_bytes();
            let mut i = 0;
            let mut n = 0usize;
            while i < b.len() {
                n = n * 10 + (b[i] - b'0') as usize;
                i += 1;
            }
            n
        }
    }
}

#[inline(never)]
pub fn capacity_exceeded() -> ! {
    panic!("VENV-CAPACITY: stand-in container capacity exceeded (outside the stated bound)")
}

pub trait StepLite {
    fn add_one(&self) -> Self;
    fn sub_one(&self) -> Self;
}
macro_rules! impl_step_lite {
    ($($t:ty),*) => {$(
        impl StepLite for $t {
            fn add_one(&self) -> Self { *self + 1 }
            fn sub_one(&self) -> Self { *self - 1 }
        }
    )*};
}
impl_step_lite!(u8, u16, u32, u64, usize, i8, i16, i32, i64);

pub struct RangeInclusiveSet<T> {
    items: [Option<RangeInclusive<T>>; CAP],
    len: usize,
}

impl<T> Default for RangeInclusiveSet<T> {
    fn default() -> Self {
        Self { items: [const { None }; CAP], len: 0 }
    }
}

impl<T: Clone> Clone for RangeInclusiveSet<T> {
    fn clone(&self) -> Self {
        let mut out = Self::default();
        let mut i = 0;
        while i < CAP {
            if i >= self.len {
                break;
            }
            out.items[i] = self.items[i].clone();
            i += 1;
        }
        out.len = self.len;
        out
    }
}

impl<T: PartialEq> PartialEq for RangeInclusiveSet<T> {
    fn eq(&self, other: &Self) -> bool {
        if self.len != other.len {
            return false;
        }
        let mut i = 0;
        while i < CAP {
            if i >= self.len {
                break;
            }
            if self.items[i] != other.items[i] {
                return false;
            }
            i += 1;
        }
        true
    }
}
impl<T: Eq> Eq for RangeInclusiveSet<T> {}

impl<T> core::fmt::Debug for RangeInclusiveSet<T> {
    fn fmt(&self, _f: &mut core::fmt::Formatter<'_>) -> core::fmt::Result {
        Ok(())
    }
}

impl<T> RangeInclusiveSet<T> {
    pub fn new() -> Self {
        Self::default()
    }
    pub fn len(&self) -> usize {
        self.len
    }
    pub fn is_empty(&self) -> bool {
        self.len == 0
    }
    pub fn clear(&mut self) {
        let mut i = 0;
        while i < CAP {
            self.items[i] = None;
            i += 1;
        }
        self.len = 0;
    }
    pub fn iter(&self) -> Iter<'_, T> {
        Iter { set: self, front: 0, back: self.len }
    }
    pub fn first(&self) -> Option<&RangeInclusive<T>> {
        if self.len == 0 {
            None
        } else {
            self.items[0].as_ref()
        }
    }
    pub fn last(&self) -> Option<&RangeInclusive<T>> {
        if self.len == 0 {
            None
        } else {
            self.items[self.len - 1].as_ref()
        }
    }
    #[inline]
    fn at(&self, i: usize) -> &RangeInclusive<T> {
        match &self.items[i] {
            Some(r) => r,
            None => unreachable!(),
        }
    }
    fn push_back(&mut self, r: RangeInclusive<T>) {
        if self.len >= CAP {
            capacity_exceeded();
        }
        self.items[self.len] = Some(r);
        self.len += 1;
    }
    /// harness helper: build directly from sorted, disjoint, non-adjacent ranges (no checks)
    pub fn from_sorted_unchecked(rs: &[RangeInclusive<T>]) -> Self
    where
        T: Clone,
    {
        let mut s = Self::default();
        for r in rs {
            s.push_back(r.clone());
        }
        s
    }
}

impl<T: Ord + Clone + StepLite> RangeInclusiveSet<T> {
    pub fn get(&self, value: &T) -> Option<&RangeInclusive<T>> {
        let mut i = 0;
        while i < CAP {
            if i >= self.len {
                break;
            }
            let r = self.at(i);
            if r.start() <= value && value <= r.end() {
                return Some(r);
            }
            i += 1;
        }
        None
    }
    pub fn contains(&self, value: &T) -> bool {
        self.get(value).is_some()
    }

    /// rangemap: panics if `start > end`; merges with every stored range it overlaps or touches
    pub fn insert(&mut self, range: RangeInclusive<T>) {
        assert!(range.start() <= range.end(), "Range start can not be after range end");
        let (mut ns, mut ne) = range.into_inner();
        let mut out = Self::default();
        let mut placed = false;
        let mut i = 0;
        while i < CAP {
            if i >= self.len {
                break;
            }
            let r = match self.items[i].take() {
                Some(r) => r,
                None => unreachable!(),
            };
            if placed {
                // everything after the merged range is strictly after and not adjacent
                out.push_back(r);
            } else if r.end() < &ns && r.end().add_one() != ns {
                // strictly before, not adjacent
                out.push_back(r);
            } else if r.start() > &ne && ne.add_one() != *r.start() {
                // strictly after, not adjacent: the merged range goes first
                out.push_back(ns.clone()..=ne.clone());
                placed = true;
                out.push_back(r);
            } else {
                // overlapping or adjacent: absorb
                let (rs, re) = r.into_inner();
                if rs < ns {
                    ns = rs;
                }
                if re > ne {
                    ne = re;
                }
            }
            i += 1;
        }
        if !placed {
            out.push_back(ns..=ne);
        }
        *self = out;
    }

    /// rangemap: panics if `start > end`; stored ranges partially covered are contracted/split
    pub fn remove(&mut self, range: RangeInclusive<T>) {
        assert!(range.start() <= range.end(), "Range start can not be after range end");
        let mut out = Self::default();
        let mut i = 0;
        while i < CAP {
            if i >= self.len {
                break;
            }
            let r = match self.items[i].take() {
                Some(r) => r,
                None => unreachable!(),
            };
            if r.end() < range.start() || r.start() > range.end() {
                out.push_back(r);
            } else {
                if r.start() < range.start() {
                    out.push_back(r.start().clone()..=range.start().sub_one());
                }
                if r.end() > range.end() {
                    out.push_back(range.end().add_one()..=r.end().clone());
                }
            }
            i += 1;
        }
        *self = out;
    }

    /// stored ranges partially or completely overlapped by `range`, ascending.
    /// (rangemap: first stored range whose end >= range.start, then while start <= range.end)
    pub fn overlapping<R: Borrow<RangeInclusive<T>>>(&self, range: R) -> Overlapping<'_, T, R> {
        Overlapping { set: self, query: range, idx: 0, done: false }
    }
    pub fn overlaps(&self, range: &RangeInclusive<T>) -> bool {
        self.overlapping(range).next().is_some()
    }

    /// maximal sub-ranges of `outer` not covered by any stored range, ascending
    pub fn gaps<'a>(&'a self, outer: &'a RangeInclusive<T>) -> Gaps<'a, T> {
        Gaps { set: self, idx: 0, cursor: Some(outer.start().clone()), end: outer.end() }
    }
}

pub struct Iter<'a, T> {
    set: &'a RangeInclusiveSet<T>,
    front: usize,
    back: usize,
}
impl<'a, T> Iterator for Iter<'a, T> {
    type Item = &'a RangeInclusive<T>;
    fn next(&mut self) -> Option<Self::Item> {
        if self.front < self.back {
            let r = self.set.at(self.front);
            self.front += 1;
            Some(r)
        } else {
            None
        }
    }
}
impl<'a, T> DoubleEndedIterator for Iter<'a, T> {
    fn next_back(&mut self) -> Option<Self::Item> {
        if self.front < self.back {
            self.back -= 1;
            Some(self.set.at(self.back))
        } else {
            None
        }
    }
}
impl<'a, T> IntoIterator for &'a RangeInclusiveSet<T> {
    type Item = &'a RangeInclusive<T>;
    type IntoIter = Iter<'a, T>;
    fn into_iter(self) -> Iter<'a, T> {
        self.iter()
    }
}

pub struct IntoIter<T> {
    set: RangeInclusiveSet<T>,
    front: usize,
}
impl<T> Iterator for IntoIter<T> {
    type Item = RangeInclusive<T>;
    fn next(&mut self) -> Option<Self::Item> {
        if self.front < self.set.len {
            let r = self.set.items[self.front].take();
            self.front += 1;
            r
        } else {
            None
        }
    }
}
impl<T> IntoIterator for RangeInclusiveSet<T> {
    type Item = RangeInclusive<T>;
    type IntoIter = IntoIter<T>;
    fn into_iter(self) -> IntoIter<T> {
        IntoIter { set: self, front: 0 }
    }
}

pub struct Overlapping<'a, T, R: Borrow<RangeInclusive<T>> = &'a RangeInclusive<T>> {
    set: &'a RangeInclusiveSet<T>,
    query: R,
    idx: usize,
    done: bool,
}
impl<'a, T: Ord, R: Borrow<RangeInclusive<T>>> Iterator for Overlapping<'a, T, R> {
    type Item = &'a RangeInclusive<T>;
    fn next(&mut self) -> Option<Self::Item> {
        if self.done {
            return None;
        }
        // constant trip count (CAP): independent of the harness' unwind bound
        let mut k = 0;
        while k < CAP {
            if self.idx >= self.set.len {
                break;
            }
            let r = self.set.at(self.idx);
            self.idx += 1;
            if !(r.end() < self.query.borrow().start()) {
                if r.start() <= self.query.borrow().end() {
                    return Some(r);
                }
                break;
            }
            k += 1;
        }
        self.done = true;
        None
    }
}

pub struct Gaps<'a, T> {
    set: &'a RangeInclusiveSet<T>,
    idx: usize,
    /// next candidate start; None once the outer range is exhausted
    cursor: Option<T>,
    end: &'a T,
}
impl<'a, T: Ord + Clone + StepLite> Iterator for Gaps<'a, T> {
    type Item = RangeInclusive<T>;
    fn next(&mut self) -> Option<Self::Item> {
        // one flat pass with a constant trip count (CAP + 1)
        let mut k = 0;
        while k <= CAP {
            let cur = match &self.cursor {
                None => return None,
                Some(c) => c.clone(),
            };
            if cur > *self.end {
                self.cursor = None;
                return None;
            }
            if self.idx >= self.set.len {
                // no stored range left: tail gap
                self.cursor = None;
                return Some(cur..=self.end.clone());
            }
            let r = self.set.at(self.idx);
            if r.end() < &cur {
                // stored range entirely before the cursor: skip it
                self.idx += 1;
            } else if r.start() > self.end {
                // stored range entirely after the outer range: tail gap
                self.cursor = None;
                return Some(cur..=self.end.clone());
            } else {
                // r intersects [cur, end]: move the cursor past it, emit the gap before it (if any)
                self.idx += 1;
                self.cursor = if r.end() >= self.end { None } else { Some(r.end().add_one()) };
                if cur < *r.start() {
                    return Some(cur..=r.start().sub_one());
                }
            }
            k += 1;
        }
        None
    }
}

impl<T: Ord + Clone + StepLite> FromIterator<RangeInclusive<T>> for RangeInclusiveSet<T> {
    fn from_iter<I: IntoIterator<Item = RangeInclusive<T>>>(iter: I) -> Self {
        let mut s = Self::default();
        s.extend(iter);
        s
    }
}
impl<T: Ord + Clone + StepLite> Extend<RangeInclusive<T>> for RangeInclusiveSet<T> {
    fn extend<I: IntoIterator<Item = RangeInclusive<T>>>(&mut self, iter: I) {
        for r in iter {
            self.insert(r);
        }
    }
}
impl<T: Ord + Clone + StepLite, const N: usize> From<[RangeInclusive<T>; N]> for RangeInclusiveSet<T> {
    fn from(value: [RangeInclusive<T>; N]) -> Self {
        let mut s = Self::default();
        for r in value {
            s.insert(r);
        }
        s
    }
}
