//! single-task executor for re-hosted `async fn`s: the environment's futures are always ready, so
//! the first poll must complete (asserted).  No interleaving claim is made anywhere.
use core::future::Future;
use core::pin::pin;
use core::task::{Context, Poll, RawWaker, RawWakerVTable, Waker};

fn noop_raw() -> RawWaker {
    fn clone(_: *const ()) -> RawWaker {
        noop_raw()
    }
    fn noop(_: *const ()) {}
    static VT: RawWakerVTable = RawWakerVTable::new(clone, noop, noop, noop);
    RawWaker::new(core::ptr::null(), &VT)
}

pub fn block_on<F: Future>(f: F) -> F::Output {
    let waker = unsafe { Waker::from_raw(noop_raw()) };
    let mut cx = Context::from_waker(&waker);
    let mut f = pin!(f);
    match f.as_mut().poll(&mut cx) {
        Poll::Ready(v) => v,
        Poll::Pending => panic!("VENV-ASYNC: re-hosted future was not ready on first poll"),
    }
}
