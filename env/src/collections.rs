//! Array-backed, heap-free stand-ins for the std / indexmap containers the sliced code uses.
//! Only the API subset that is actually used is provided; iteration order follows the real
//! container's contract: `BTreeMap` ascending by key, `IndexMap` insertion order, `HashMap` /
//! `HashSet` ARBITRARY (a nondeterministic rotation chosen per iteration, so that order
//! dependence is explored by the solver instead of hidden), `Vec` positional.
//! Exceeding a capacity is a hard failure (`capacity_exceeded`), never silent truncation.

use crate::rangemap::{capacity_exceeded, CAP};
use core::borrow::Borrow;

/// capacity of the `Vec` stand-in, fixed at compile time through `VENV_VCAP` (default 6)
pub const VCAP: usize = parse(option_env!("VENV_VCAP"), 6);
const fn parse(s: Option<&str>, d: usize) -> usize {
    match s {
        None => d,
        Some(s) => {
            let b = s.as_bytes();
            let mut i = 0;
            let mut n = 0usize;
            while i < b.len() {
                n = n * 10 + (b[i] - b'0') as usize;
                i += 1;
            }
            n
        }
    }
}

/// pre-allocation oracle hook: harness crates that check "allocation related to input size" set
/// `PREALLOC_LIMIT`; a `with_capacity(n)` request above it fails the C09-ALLOC assertion
pub static mut PREALLOC_LIMIT: usize = usize::MAX;
pub fn on_with_capacity(n: usize) {
    let lim = unsafe { PREALLOC_LIMIT };
    assert!(n <= lim, "C09-ALLOC: HashMap::with_capacity request unrelated to input size");
}

#[cfg(kani)]
fn nondet_below(n: usize) -> usize {
    if n <= 1 {
        return 0;
    }
    let r: usize = kani::any();
    kani::assume(r < n);
    r
}
#[cfg(not(kani))]
fn nondet_below(_n: usize) -> usize {
    0
}

// ------------------------------------------------------------------------------------------
// Vec
// ------------------------------------------------------------------------------------------

pub struct Vec<T> {
    items: [Option<T>; VCAP],
    len: usize,
}
impl<T> Default for Vec<T> {
    fn default() -> Self {
        Self { items: [const { None }; VCAP], len: 0 }
    }
}
impl<T> Vec<T> {
    pub fn new() -> Self {
        Self::default()
    }
    pub fn with_capacity(_n: usize) -> Self {
        Self::default()
    }
    pub fn len(&self) -> usize {
        self.len
    }
    pub fn is_empty(&self) -> bool {
        self.len == 0
    }
    pub fn push(&mut self, v: T) {
        if self.len >= VCAP {
            capacity_exceeded();
        }
        self.items[self.len] = Some(v);
        self.len += 1;
    }
    pub fn pop(&mut self) -> Option<T> {
        if self.len == 0 {
            None
        } else {
            self.len -= 1;
            self.items[self.len].take()
        }
    }
    pub fn clear(&mut self) {
        let mut i = 0;
        while i < VCAP {
            self.items[i] = None;
            i += 1;
        }
        self.len = 0;
    }
    pub fn get(&self, i: usize) -> Option<&T> {
        if i < self.len {
            self.items[i].as_ref()
        } else {
            None
        }
    }
    pub fn first(&self) -> Option<&T> {
        self.get(0)
    }
    pub fn last(&self) -> Option<&T> {
        if self.len == 0 {
            None
        } else {
            self.get(self.len - 1)
        }
    }
    pub fn iter(&self) -> VecIter<'_, T> {
        VecIter { v: self, front: 0, back: self.len }
    }
    /// only the full range is supported: `drain(..)`
    pub fn drain(&mut self, _r: core::ops::RangeFull) -> VecIntoIter<T> {
        let taken = core::mem::take(self);
        VecIntoIter { v: taken, front: 0 }
    }
    pub fn extend<I: IntoIterator<Item = T>>(&mut self, it: I) {
        for x in it {
            self.push(x);
        }
    }
    pub fn retain<F: FnMut(&T) -> bool>(&mut self, mut f: F) {
        let mut out = Self::default();
        let mut i = 0;
        while i < VCAP {
            if i >= self.len {
                break;
            }
            if let Some(x) = self.items[i].take() {
                if f(&x) {
                    out.push(x);
                }
            }
            i += 1;
        }
        *self = out;
    }
    pub fn contains(&self, x: &T) -> bool
    where
        T: PartialEq,
    {
        let mut i = 0;
        while i < VCAP {
            if i >= self.len {
                break;
            }
            if self.items[i].as_ref() == Some(x) {
                return true;
            }
            i += 1;
        }
        false
    }
}
impl<T: Clone> Clone for Vec<T> {
    fn clone(&self) -> Self {
        let mut out = Self::default();
        let mut i = 0;
        while i < VCAP {
            if i >= self.len {
                break;
            }
            out.items[i] = self.items[i].clone();
            i += 1;
        }
        out.len = self.len;
        out
    }
}
impl<T: PartialEq> PartialEq for Vec<T> {
    fn eq(&self, o: &Self) -> bool {
        if self.len != o.len {
            return false;
        }
        let mut i = 0;
        while i < VCAP {
            if i >= self.len {
                break;
            }
            if self.items[i] != o.items[i] {
                return false;
            }
            i += 1;
        }
        true
    }
}
impl<T: Eq> Eq for Vec<T> {}
impl<T> core::fmt::Debug for Vec<T> {
    fn fmt(&self, _f: &mut core::fmt::Formatter<'_>) -> core::fmt::Result {
        Ok(())
    }
}
impl<T> core::ops::Index<usize> for Vec<T> {
    type Output = T;
    fn index(&self, i: usize) -> &T {
        assert!(i < self.len, "index out of bounds");
        match &self.items[i] {
            Some(x) => x,
            None => unreachable!(),
        }
    }
}
impl<T> core::ops::IndexMut<usize> for Vec<T> {
    fn index_mut(&mut self, i: usize) -> &mut T {
        assert!(i < self.len, "index out of bounds");
        match &mut self.items[i] {
            Some(x) => x,
            None => unreachable!(),
        }
    }
}
pub struct VecIter<'a, T> {
    v: &'a Vec<T>,
    front: usize,
    back: usize,
}
impl<'a, T> Iterator for VecIter<'a, T> {
    type Item = &'a T;
    fn next(&mut self) -> Option<&'a T> {
        if self.front < self.back {
            let r = self.v.items[self.front].as_ref();
            self.front += 1;
            r
        } else {
            None
        }
    }
}
impl<'a, T> DoubleEndedIterator for VecIter<'a, T> {
    fn next_back(&mut self) -> Option<&'a T> {
        if self.front < self.back {
            self.back -= 1;
            self.v.items[self.back].as_ref()
        } else {
            None
        }
    }
}
pub struct VecIntoIter<T> {
    v: Vec<T>,
    front: usize,
}
impl<T> Iterator for VecIntoIter<T> {
    type Item = T;
    fn next(&mut self) -> Option<T> {
        if self.front < self.v.len {
            let r = self.v.items[self.front].take();
            self.front += 1;
            r
        } else {
            None
        }
    }
}
impl<T> IntoIterator for Vec<T> {
    type Item = T;
    type IntoIter = VecIntoIter<T>;
    fn into_iter(self) -> VecIntoIter<T> {
        VecIntoIter { v: self, front: 0 }
    }
}
impl<'a, T> IntoIterator for &'a Vec<T> {
    type Item = &'a T;
    type IntoIter = VecIter<'a, T>;
    fn into_iter(self) -> VecIter<'a, T> {
        self.iter()
    }
}
impl<T> FromIterator<T> for Vec<T> {
    fn from_iter<I: IntoIterator<Item = T>>(it: I) -> Self {
        let mut v = Self::default();
        for x in it {
            v.push(x);
        }
        v
    }
}
#[macro_export]
macro_rules! avec {
    () => { $crate::collections::Vec::new() };
    ($($x:expr),+ $(,)?) => {{
        let mut v = $crate::collections::Vec::new();
        $( v.push($x); )+
        v
    }};
}

// ------------------------------------------------------------------------------------------
// VecDeque (front = index 0)
// ------------------------------------------------------------------------------------------
pub struct VecDeque<T> {
    v: Vec<T>,
}
impl<T> Default for VecDeque<T> {
    fn default() -> Self {
        Self { v: Vec::default() }
    }
}
impl<T> VecDeque<T> {
    pub fn new() -> Self {
        Self::default()
    }
    pub fn len(&self) -> usize {
        self.v.len
    }
    pub fn is_empty(&self) -> bool {
        self.v.len == 0
    }
    pub fn push_back(&mut self, x: T) {
        self.v.push(x)
    }
    pub fn pop_back(&mut self) -> Option<T> {
        self.v.pop()
    }
    pub fn pop_front(&mut self) -> Option<T> {
        if self.v.len == 0 {
            return None;
        }
        let out = self.v.items[0].take();
        let mut i = 0;
        while i + 1 < VCAP {
            if i + 1 < self.v.len {
                self.v.items[i] = self.v.items[i + 1].take();
            }
            i += 1;
        }
        self.v.len -= 1;
        out
    }
    pub fn front(&self) -> Option<&T> {
        self.v.first()
    }
    pub fn back(&self) -> Option<&T> {
        self.v.last()
    }
    pub fn get(&self, i: usize) -> Option<&T> {
        self.v.get(i)
    }
    pub fn iter(&self) -> VecIter<'_, T> {
        self.v.iter()
    }
    pub fn drain(&mut self, r: core::ops::RangeFull) -> VecIntoIter<T> {
        self.v.drain(r)
    }
}
impl<T> FromIterator<T> for VecDeque<T> {
    fn from_iter<I: IntoIterator<Item = T>>(it: I) -> Self {
        Self { v: Vec::from_iter(it) }
    }
}

// ------------------------------------------------------------------------------------------
// generic slot map used by BTreeMap (sorted), IndexMap (insertion order), HashMap (arbitrary)
// ------------------------------------------------------------------------------------------

#[derive(Clone, Copy, PartialEq, Eq)]
pub enum Order {
    Sorted,
    Insertion,
    Arbitrary,
}

pub struct SlotMap<K, V, const ORD: u8> {
    items: [Option<(K, V)>; CAP],
    len: usize,
}
pub type BTreeMap<K, V> = SlotMap<K, V, 0>;
pub type IndexMap<K, V> = SlotMap<K, V, 1>;
pub type HashMap<K, V> = SlotMap<K, V, 2>;

impl<K, V, const ORD: u8> Default for SlotMap<K, V, ORD> {
    fn default() -> Self {
        Self { items: [const { None }; CAP], len: 0 }
    }
}
impl<K: Clone, V: Clone, const ORD: u8> Clone for SlotMap<K, V, ORD> {
    fn clone(&self) -> Self {
        let mut out = Self::default();
        let mut i = 0;
        while i < CAP {
            if i >= self.len {
                break;
            }
            out.items[i] = self.items[i].clone();
            i += 1;
        }
        out.len = self.len;
        out
    }
}
impl<K, V, const ORD: u8> core::fmt::Debug for SlotMap<K, V, ORD> {
    fn fmt(&self, _f: &mut core::fmt::Formatter<'_>) -> core::fmt::Result {
        Ok(())
    }
}
impl<K: Ord, V: PartialEq, const ORD: u8> PartialEq for SlotMap<K, V, ORD> {
    fn eq(&self, o: &Self) -> bool {
        if self.len != o.len {
            return false;
        }
        let mut i = 0;
        while i < CAP {
            if i >= self.len {
                break;
            }
            let (k, v) = self.slot(i);
            match o.get(k) {
                Some(v2) if v2 == v => {}
                _ => return false,
            }
            i += 1;
        }
        true
    }
}
impl<K: Ord, V: Eq, const ORD: u8> Eq for SlotMap<K, V, ORD> {}

impl<K, V, const ORD: u8> SlotMap<K, V, ORD> {
    pub fn new() -> Self {
        Self::default()
    }
    pub fn with_capacity(n: usize) -> Self {
        crate::collections::on_with_capacity(n);
        Self::default()
    }
    pub fn len(&self) -> usize {
        self.len
    }
    pub fn is_empty(&self) -> bool {
        self.len == 0
    }
    pub fn clear(&mut self) {
        *self = Self::default();
    }
    #[inline]
    fn slot(&self, i: usize) -> (&K, &V) {
        match &self.items[i] {
            Some((k, v)) => (k, v),
            None => unreachable!(),
        }
    }
    pub fn iter_mut(&mut self) -> impl Iterator<Item = (&K, &mut V)> {
        // positional order (for HashMap this is one of the arbitrary orders)
        let len = self.len;
        self.items.iter_mut().take(len).filter_map(|s| s.as_mut().map(|(k, v)| (&*k, v)))
    }
    pub fn values_mut(&mut self) -> impl Iterator<Item = &mut V> {
        self.iter_mut().map(|(_, v)| v)
    }
}

impl<K: Ord, V, const ORD: u8> SlotMap<K, V, ORD> {
    pub fn iter(&self) -> MapIter<'_, K, V, ORD> {
        let rot = if ORD == 2 { nondet_below(self.len) } else { 0 };
        MapIter { m: self, i: 0, rot, last: None }
    }
    pub fn keys(&self) -> impl Iterator<Item = &K> {
        self.iter().map(|(k, _)| k)
    }
    pub fn values(&self) -> impl Iterator<Item = &V> {
        self.iter().map(|(_, v)| v)
    }
    fn find<Q: ?Sized + Ord>(&self, k: &Q) -> Option<usize>
    where
        K: Borrow<Q>,
    {
        let mut i = 0;
        while i < CAP {
            if i >= self.len {
                break;
            }
            if self.slot(i).0.borrow() == k {
                return Some(i);
            }
            i += 1;
        }
        None
    }
    pub fn get<Q: ?Sized + Ord>(&self, k: &Q) -> Option<&V>
    where
        K: Borrow<Q>,
    {
        match self.find(k) {
            Some(i) => Some(self.slot(i).1),
            None => None,
        }
    }
    pub fn get_mut<Q: ?Sized + Ord>(&mut self, k: &Q) -> Option<&mut V>
    where
        K: Borrow<Q>,
    {
        match self.find(k) {
            Some(i) => match &mut self.items[i] {
                Some((_, v)) => Some(v),
                None => unreachable!(),
            },
            None => None,
        }
    }
    pub fn contains_key<Q: ?Sized + Ord>(&self, k: &Q) -> bool
    where
        K: Borrow<Q>,
    {
        self.find(k).is_some()
    }
    /// storage is UNORDERED for every flavour (appending, swap-removing: no element moves);
    /// the ordered flavours sort at iteration time instead
    fn insert_at_order(&mut self, k: K, v: V) -> usize {
        if self.len >= CAP {
            capacity_exceeded();
        }
        let pos = self.len;
        self.items[pos] = Some((k, v));
        self.len += 1;
        pos
    }
    pub fn insert(&mut self, k: K, v: V) -> Option<V> {
        match self.find(&k) {
            Some(i) => match &mut self.items[i] {
                Some((_, old)) => Some(core::mem::replace(old, v)),
                None => unreachable!(),
            },
            None => {
                self.insert_at_order(k, v);
                None
            }
        }
    }
    fn remove_at(&mut self, i: usize) -> (K, V) {
        let out = match self.items[i].take() {
            Some(kv) => kv,
            None => unreachable!(),
        };
        if ORD == 1 {
            // IndexMap::shift_remove keeps insertion order
            let mut j = i;
            while j + 1 < CAP {
                if j + 1 < self.len {
                    self.items[j] = self.items[j + 1].take();
                }
                j += 1;
            }
        } else {
            let last = self.len - 1;
            if i != last {
                self.items[i] = self.items[last].take();
            }
        }
        self.len -= 1;
        out
    }
    pub fn remove<Q: ?Sized + Ord>(&mut self, k: &Q) -> Option<V>
    where
        K: Borrow<Q>,
    {
        match self.find(k) {
            Some(i) => Some(self.remove_at(i).1),
            None => None,
        }
    }
    pub fn remove_entry<Q: ?Sized + Ord>(&mut self, k: &Q) -> Option<(K, V)>
    where
        K: Borrow<Q>,
    {
        match self.find(k) {
            Some(i) => Some(self.remove_at(i)),
            None => None,
        }
    }
    /// IndexMap::swap_remove_entry: the last element takes the removed one's place
    pub fn swap_remove_entry<Q: ?Sized + Ord>(&mut self, k: &Q) -> Option<(K, V)>
    where
        K: Borrow<Q>,
    {
        match self.find(k) {
            Some(i) => {
                let out = self.items[i].take();
                let last = self.len - 1;
                if i != last {
                    self.items[i] = self.items[last].take();
                }
                self.len -= 1;
                out
            }
            None => None,
        }
    }
    pub fn swap_remove<Q: ?Sized + Ord>(&mut self, k: &Q) -> Option<V>
    where
        K: Borrow<Q>,
    {
        self.swap_remove_entry(k).map(|(_, v)| v)
    }
    pub fn shift_remove<Q: ?Sized + Ord>(&mut self, k: &Q) -> Option<V>
    where
        K: Borrow<Q>,
    {
        self.remove(k)
    }
    pub fn retain<F: FnMut(&K, &mut V) -> bool>(&mut self, mut f: F) {
        let mut out = Self::default();
        let mut i = 0;
        while i < CAP {
            if i >= self.len {
                break;
            }
            if let Some((k, mut v)) = self.items[i].take() {
                if f(&k, &mut v) {
                    out.items[out.len] = Some((k, v));
                    out.len += 1;
                }
            }
            i += 1;
        }
        *self = out;
    }
    pub fn entry(&mut self, k: K) -> Entry<'_, K, V, ORD> {
        match self.find(&k) {
            Some(i) => Entry::Occupied(OccupiedEntry { m: self, i }),
            None => Entry::Vacant(VacantEntry { m: self, k }),
        }
    }
    pub fn first_key_value(&self) -> Option<(&K, &V)> {
        let mut best: Option<usize> = None;
        let mut j = 0;
        while j < CAP {
            if j < self.len && best.map(|b| self.slot(j).0 < self.slot(b).0).unwrap_or(true) {
                best = Some(j);
            }
            j += 1;
        }
        best.map(|b| self.slot(b))
    }
    pub fn last_key_value(&self) -> Option<(&K, &V)> {
        let mut best: Option<usize> = None;
        let mut j = 0;
        while j < CAP {
            if j < self.len && best.map(|b| self.slot(j).0 > self.slot(b).0).unwrap_or(true) {
                best = Some(j);
            }
            j += 1;
        }
        best.map(|b| self.slot(b))
    }
    /// IndexMap::split_off(at): the entries [at..] move to the returned map, self keeps [..at]
    pub fn split_off(&mut self, at: usize) -> Self {
        assert!(at <= self.len, "split_off index out of bounds");
        let mut out = Self::default();
        let mut i = 0;
        while i < CAP {
            if i >= at && i < self.len {
                out.items[out.len] = self.items[i].take();
                out.len += 1;
            }
            i += 1;
        }
        self.len = at;
        out
    }
    /// IndexMap::truncate(n): keeps the first n entries (insertion order)
    pub fn truncate(&mut self, n: usize) {
        let mut i = 0;
        while i < CAP {
            if i >= n && i < self.len {
                self.items[i] = None;
            }
            i += 1;
        }
        if n < self.len {
            self.len = n;
        }
    }
    /// IndexMap::get_index
    pub fn get_index(&self, i: usize) -> Option<(&K, &V)> {
        if i < self.len {
            Some(self.slot(i))
        } else {
            None
        }
    }
    pub fn extend<I: IntoIterator<Item = (K, V)>>(&mut self, it: I) {
        for (k, v) in it {
            self.insert(k, v);
        }
    }
}

pub struct MapIter<'a, K, V, const ORD: u8> {
    m: &'a SlotMap<K, V, ORD>,
    i: usize,
    rot: usize,
    /// ORD == 0: slot yielded last (keys are distinct, so "next larger key" is well defined)
    last: Option<usize>,
}
impl<'a, K: Ord, V, const ORD: u8> Iterator for MapIter<'a, K, V, ORD> {
    type Item = (&'a K, &'a V);
    fn next(&mut self) -> Option<Self::Item> {
        if self.i >= self.m.len {
            return None;
        }
        self.i += 1;
        if ORD == 0 {
            // ascending key order by selection: smallest key greater than the last one yielded
            let mut best: Option<usize> = None;
            let mut j = 0;
            while j < CAP {
                if j < self.m.len {
                    let k = self.m.slot(j).0;
                    let after_last = match self.last {
                        None => true,
                        Some(l) => k > self.m.slot(l).0,
                    };
                    let better = match best {
                        None => true,
                        Some(b) => k < self.m.slot(b).0,
                    };
                    if after_last && better {
                        best = Some(j);
                    }
                }
                j += 1;
            }
            match best {
                Some(b) => {
                    self.last = Some(b);
                    Some(self.m.slot(b))
                }
                None => None,
            }
        } else {
            let mut idx = self.i - 1 + self.rot;
            if idx >= self.m.len {
                idx -= self.m.len;
            }
            Some(self.m.slot(idx))
        }
    }
}
impl<'a, K: Ord, V, const ORD: u8> IntoIterator for &'a SlotMap<K, V, ORD> {
    type Item = (&'a K, &'a V);
    type IntoIter = MapIter<'a, K, V, ORD>;
    fn into_iter(self) -> Self::IntoIter {
        self.iter()
    }
}
pub struct MapIntoIter<K, V, const ORD: u8> {
    m: SlotMap<K, V, ORD>,
    i: usize,
    rot: usize,
}
impl<K: Ord, V, const ORD: u8> Iterator for MapIntoIter<K, V, ORD> {
    type Item = (K, V);
    fn next(&mut self) -> Option<(K, V)> {
        if self.i >= self.m.len {
            return None;
        }
        self.i += 1;
        if ORD == 0 {
            // ascending: take the smallest key still present
            let mut best: Option<usize> = None;
            let mut j = 0;
            while j < CAP {
                if let Some((k, _)) = &self.m.items[j] {
                    let better = match best {
                        None => true,
                        Some(b) => match &self.m.items[b] {
                            Some((kb, _)) => k < kb,
                            None => true,
                        },
                    };
                    if better {
                        best = Some(j);
                    }
                }
                j += 1;
            }
            match best {
                Some(b) => self.m.items[b].take(),
                None => None,
            }
        } else {
            let mut idx = self.i - 1 + self.rot;
            if idx >= self.m.len {
                idx -= self.m.len;
            }
            self.m.items[idx].take()
        }
    }
}
impl<K: Ord, V, const ORD: u8> IntoIterator for SlotMap<K, V, ORD> {
    type Item = (K, V);
    type IntoIter = MapIntoIter<K, V, ORD>;
    fn into_iter(self) -> Self::IntoIter {
        let rot = if ORD == 2 { nondet_below(self.len) } else { 0 };
        MapIntoIter { m: self, i: 0, rot }
    }
}
impl<K: Ord, V, const ORD: u8> FromIterator<(K, V)> for SlotMap<K, V, ORD> {
    fn from_iter<I: IntoIterator<Item = (K, V)>>(it: I) -> Self {
        let mut m = Self::default();
        for (k, v) in it {
            m.insert(k, v);
        }
        m
    }
}

pub enum Entry<'a, K, V, const ORD: u8> {
    Occupied(OccupiedEntry<'a, K, V, ORD>),
    Vacant(VacantEntry<'a, K, V, ORD>),
}
pub struct OccupiedEntry<'a, K, V, const ORD: u8> {
    m: &'a mut SlotMap<K, V, ORD>,
    i: usize,
}
pub struct VacantEntry<'a, K, V, const ORD: u8> {
    m: &'a mut SlotMap<K, V, ORD>,
    k: K,
}
impl<'a, K: Ord, V, const ORD: u8> OccupiedEntry<'a, K, V, ORD> {
    pub fn get(&self) -> &V {
        self.m.slot(self.i).1
    }
    pub fn key(&self) -> &K {
        self.m.slot(self.i).0
    }
    pub fn get_mut(&mut self) -> &mut V {
        match &mut self.m.items[self.i] {
            Some((_, v)) => v,
            None => unreachable!(),
        }
    }
    pub fn into_mut(self) -> &'a mut V {
        match &mut self.m.items[self.i] {
            Some((_, v)) => v,
            None => unreachable!(),
        }
    }
    pub fn insert(&mut self, v: V) -> V {
        core::mem::replace(self.get_mut(), v)
    }
    pub fn remove(self) -> V {
        self.m.remove_at(self.i).1
    }
    pub fn remove_entry(self) -> (K, V) {
        self.m.remove_at(self.i)
    }
    /// IndexMap's OccupiedEntry::swap_remove_entry
    pub fn swap_remove_entry(self) -> (K, V) {
        let i = self.i;
        let out = match self.m.items[i].take() {
            Some(kv) => kv,
            None => unreachable!(),
        };
        let last = self.m.len - 1;
        if i != last {
            self.m.items[i] = self.m.items[last].take();
        }
        self.m.len -= 1;
        out
    }
    pub fn shift_remove_entry(self) -> (K, V) {
        self.m.remove_at(self.i)
    }
}
impl<'a, K: Ord, V, const ORD: u8> VacantEntry<'a, K, V, ORD> {
    pub fn key(&self) -> &K {
        &self.k
    }
    pub fn insert(self, v: V) -> &'a mut V {
        let pos = self.m.insert_at_order(self.k, v);
        match &mut self.m.items[pos] {
            Some((_, v)) => v,
            None => unreachable!(),
        }
    }
}
impl<'a, K: Ord, V, const ORD: u8> Entry<'a, K, V, ORD> {
    pub fn or_insert(self, v: V) -> &'a mut V {
        self.or_insert_with(move || v)
    }
    /// ONE pointer with a symbolic index for both cases: CBMC copes far better with that than
    /// with a pointer that may point to several places (measured: -23% formula size for a map of
    /// range sets; routing every access through constant-offset pointers was +20% instead)
    pub fn or_insert_with<F: FnOnce() -> V>(self, f: F) -> &'a mut V {
        let (m, i) = match self {
            Entry::Occupied(e) => (e.m, e.i),
            Entry::Vacant(e) => {
                let pos = e.m.insert_at_order(e.k, f());
                (e.m, pos)
            }
        };
        match &mut m.items[i] {
            Some((_, v)) => v,
            None => unreachable!(),
        }
    }
    pub fn or_default(self) -> &'a mut V
    where
        V: Default,
    {
        self.or_insert_with(V::default)
    }
}
/// `std::collections::btree_map` / `hash_map` / `indexmap::map` path stand-ins
pub mod btree_map {
    pub type Entry<'a, K, V> = super::Entry<'a, K, V, 0>;
}
pub mod hash_map {
    pub type Entry<'a, K, V> = super::Entry<'a, K, V, 2>;
}
pub mod index_map {
    pub type Entry<'a, K, V> = super::Entry<'a, K, V, 1>;
}

// ------------------------------------------------------------------------------------------
// HashSet (arbitrary order) / BTreeSet (ascending)
// ------------------------------------------------------------------------------------------

pub struct SlotSet<T, const ORD: u8> {
    m: SlotMap<T, (), ORD>,
}
pub type HashSet<T> = SlotSet<T, 2>;

impl<T, const ORD: u8> Default for SlotSet<T, ORD> {
    fn default() -> Self {
        Self { m: SlotMap::default() }
    }
}
impl<T: Clone, const ORD: u8> Clone for SlotSet<T, ORD> {
    fn clone(&self) -> Self {
        Self { m: self.m.clone() }
    }
}
impl<T, const ORD: u8> core::fmt::Debug for SlotSet<T, ORD> {
    fn fmt(&self, _f: &mut core::fmt::Formatter<'_>) -> core::fmt::Result {
        Ok(())
    }
}
/// keys that have no `Ord` (e.g. `RangeInclusive<T>`) are compared through this helper trait
pub trait SetKey {
    fn key_eq(&self, other: &Self) -> bool;
}
impl<T: PartialEq> SetKey for T {
    fn key_eq(&self, other: &Self) -> bool {
        self == other
    }
}
impl<T, const ORD: u8> SlotSet<T, ORD> {
    pub fn new() -> Self {
        Self::default()
    }
    pub fn len(&self) -> usize {
        self.m.len
    }
    pub fn is_empty(&self) -> bool {
        self.m.len == 0
    }
    pub fn clear(&mut self) {
        self.m.clear()
    }
    pub fn iter(&self) -> SetIter<'_, T, ORD> {
        let rot = if ORD == 2 { nondet_below(self.m.len) } else { 0 };
        SetIter { m: &self.m, i: 0, rot }
    }
}
impl<T: PartialEq, const ORD: u8> SlotSet<T, ORD> {
    fn find(&self, x: &T) -> Option<usize> {
        let mut i = 0;
        while i < CAP {
            if i >= self.m.len {
                break;
            }
            if self.m.slot(i).0 == x {
                return Some(i);
            }
            i += 1;
        }
        None
    }
    pub fn contains(&self, x: &T) -> bool {
        self.find(x).is_some()
    }
    pub fn insert(&mut self, x: T) -> bool {
        if self.find(&x).is_some() {
            return false;
        }
        if self.m.len >= CAP {
            capacity_exceeded();
        }
        self.m.items[self.m.len] = Some((x, ()));
        self.m.len += 1;
        true
    }
    pub fn remove(&mut self, x: &T) -> bool {
        match self.find(x) {
            Some(i) => {
                let mut j = i;
                self.m.items[i] = None;
                while j + 1 < self.m.len {
                    self.m.items[j] = self.m.items[j + 1].take();
                    j += 1;
                }
                self.m.len -= 1;
                true
            }
            None => false,
        }
    }
    pub fn extend<I: IntoIterator<Item = T>>(&mut self, it: I) {
        for x in it {
            self.insert(x);
        }
    }
    pub fn retain<F: FnMut(&T) -> bool>(&mut self, mut f: F) {
        let mut out = Self::default();
        let mut i = 0;
        while i < CAP {
            if i >= self.m.len {
                break;
            }
            if let Some((k, _)) = self.m.items[i].take() {
                if f(&k) {
                    out.m.items[out.m.len] = Some((k, ()));
                    out.m.len += 1;
                }
            }
            i += 1;
        }
        *self = out;
    }
}
pub struct SetIter<'a, T, const ORD: u8> {
    m: &'a SlotMap<T, (), ORD>,
    i: usize,
    rot: usize,
}
impl<'a, T, const ORD: u8> Iterator for SetIter<'a, T, ORD> {
    type Item = &'a T;
    fn next(&mut self) -> Option<&'a T> {
        if self.i < self.m.len {
            let mut idx = self.i + self.rot;
            if idx >= self.m.len {
                idx -= self.m.len;
            }
            self.i += 1;
            Some(self.m.slot(idx).0)
        } else {
            None
        }
    }
}
pub struct SetIntoIter<T, const ORD: u8> {
    m: SlotMap<T, (), ORD>,
    i: usize,
    rot: usize,
}
impl<T, const ORD: u8> Iterator for SetIntoIter<T, ORD> {
    type Item = T;
    fn next(&mut self) -> Option<T> {
        if self.i < self.m.len {
            let mut idx = self.i + self.rot;
            if idx >= self.m.len {
                idx -= self.m.len;
            }
            self.i += 1;
            match self.m.items[idx].take() {
                Some((k, _)) => Some(k),
                None => None,
            }
        } else {
            None
        }
    }
}
impl<T, const ORD: u8> IntoIterator for SlotSet<T, ORD> {
    type Item = T;
    type IntoIter = SetIntoIter<T, ORD>;
    fn into_iter(self) -> Self::IntoIter {
        let rot = if ORD == 2 { nondet_below(self.m.len) } else { 0 };
        SetIntoIter { m: self.m, i: 0, rot }
    }
}
impl<T: PartialEq, const ORD: u8> FromIterator<T> for SlotSet<T, ORD> {
    fn from_iter<I: IntoIterator<Item = T>>(it: I) -> Self {
        let mut s = Self::default();
        for x in it {
            s.insert(x);
        }
        s
    }
}
