//! Stand-ins for the environment of the sliced repository code (see DESIGN.md §3).
//! Everything here is heap-free and array-backed so that CBMC sees fixed-size objects.
#![allow(clippy::all, dead_code, unused_macros)]

pub mod log;
pub mod sqlite;
pub mod sql;
pub mod rangemap;
pub mod collections;
pub mod task;
pub mod chan;
pub mod time;
pub mod eyre;

/// nondeterministic value: `kani::any()` under Kani, supplied by a native oracle otherwise
#[cfg(kani)]
pub fn nondet_u8() -> u8 {
    kani::any()
}
#[cfg(not(kani))]
pub fn nondet_u8() -> u8 {
    0
}

/// what an arm of `tokio::select!` sliced with `macro_block … @value` did: yielded the block's
/// value, `continue`d the enclosing loop, or `return`ed from the enclosing function
#[derive(Debug, Clone, Copy, PartialEq)]
pub enum ArmOutcome<T> {
    Value(T),
    Continue,
    Return,
}
