//! tokio::sync::mpsc::Sender stand-in: sends are recorded in a bounded log; `is_closed()` is a
//! fixed flag chosen by the harness.  Contract-level stub (channels are environment).
use core::cell::{Cell, RefCell};

/// log capacity, fixed at compile time through `VENV_LOG` (default 6)
pub const LOG: usize = match option_env!("VENV_LOG") {
    Some(s) => (s.as_bytes()[0] - b'0') as usize,
    None => 6,
};

pub struct Sender<T> {
    pub log: RefCell<[Option<T>; LOG]>,
    pub n: Cell<usize>,
    pub closed: bool,
}
#[derive(Debug)]
pub struct SendError;

impl<T> Sender<T> {
    pub fn new(closed: bool) -> Self {
        Self { log: RefCell::new([const { None }; LOG]), n: Cell::new(0), closed }
    }
    pub fn is_closed(&self) -> bool {
        self.closed
    }
    fn record(&self, v: T) -> Result<(), SendError> {
        if self.closed {
            core::mem::forget(v);
            return Err(SendError);
        }
        let n = self.n.get();
        assert!(n < LOG, "VENV-CAPACITY: channel log");
        self.log.borrow_mut()[n] = Some(v);
        self.n.set(n + 1);
        Ok(())
    }
    pub fn blocking_send(&self, v: T) -> Result<(), SendError> {
        self.record(v)
    }
    pub fn try_send(&self, v: T) -> Result<(), SendError> {
        self.record(v)
    }
    pub async fn send(&self, v: T) -> Result<(), SendError> {
        self.record(v)
    }
    pub fn sent(&self) -> usize {
        self.n.get()
    }
}
