//! rusqlite stand-in: only the error/result types; model tables live in the harness crates
#[derive(Debug, Clone, Copy, PartialEq, Eq)]
pub enum Error {
    QueryReturnedNoRows,
    Other(u8),
    StatementChangedRows(usize),
}
pub type Result<T, E = Error> = core::result::Result<T, E>;
