//! logging / metrics / antithesis / serde_json::json stand-ins: empty bodies (guidance: formatting
//! and logging get empty bodies).  Arguments are NOT evaluated; the slicer rejects macro arguments
//! with visible side effects.

#[macro_export]
macro_rules! trace { ($($t:tt)*) => {{}}; }
#[macro_export]
macro_rules! debug { ($($t:tt)*) => {{}}; }
#[macro_export]
macro_rules! info { ($($t:tt)*) => {{}}; }
#[macro_export]
macro_rules! warn { ($($t:tt)*) => {{}}; }
#[macro_export]
macro_rules! error { ($($t:tt)*) => {{}}; }
#[macro_export]
macro_rules! counter { ($($t:tt)*) => { $crate::log::Metric }; }
#[macro_export]
macro_rules! gauge { ($($t:tt)*) => { $crate::log::Metric }; }
#[macro_export]
macro_rules! histogram { ($($t:tt)*) => { $crate::log::Metric }; }
#[macro_export]
macro_rules! json { ($($t:tt)*) => { () }; }
/// antithesis `assert_always!(cond, msg, details)`: in production builds the SDK records and never
/// panics; here the condition is evaluated (it is side-effect free at every call site) and dropped.
#[macro_export]
macro_rules! assert_always { ($c:expr, $($t:tt)*) => {{ let _ = $c; }}; }
#[macro_export]
macro_rules! assert_sometimes { ($($t:tt)*) => {{}}; }
#[macro_export]
macro_rules! assert_unreachable { ($($t:tt)*) => {{}}; }
#[macro_export]
macro_rules! assert_always_or_unreachable { ($c:expr, $($t:tt)*) => {{ let _ = $c; }}; }

pub struct Metric;
impl Metric {
    pub fn increment<T>(&self, _v: T) {}
    pub fn decrement<T>(&self, _v: T) {}
    pub fn set<T>(&self, _v: T) {}
    pub fn record<T>(&self, _v: T) {}
    pub fn absolute<T>(&self, _v: T) {}
}
