//! rusqlite-shaped stand-in: `Connection::prepare_cached(sql)?.execute(params)`, `.query_row`,
//! `.query` + `Rows::next`, `Row::get`, `named_params!`, `OptionalExtension::optional`.
//! The table semantics live in a harness-side `Backend`; every statement is identified by its
//! exact SQL text (the texts are sliced from the repository and their WHERE clauses are proved
//! equivalent to the backend's semantics by E2 / sqlpred before the backend is trusted).
//! Heap-free: fixed-size parameter lists and result sets.

use core::cell::RefCell;

pub use crate::sqlite::{Error, Result};

/// parameter-list capacity, fixed at compile time through `VENV_PARAMS` (default 6)
pub const MAX_PARAMS: usize = match option_env!("VENV_PARAMS") {
    Some(s) => {
        let b = s.as_bytes();
        if b.len() == 2 { ((b[0] - b'0') * 10 + (b[1] - b'0')) as usize } else { (b[0] - b'0') as usize }
    }
    None => 6,
};
pub const MAX_COLS: usize = 5;
pub const MAX_ROWS: usize = 4;

#[derive(Clone, Copy, Debug, PartialEq, Eq)]
pub enum Val {
    Null,
    U64(u64),
    I64(i64),
}

pub trait ToVal {
    fn to_val(&self) -> Val;
}
impl ToVal for u64 {
    fn to_val(&self) -> Val {
        Val::U64(*self)
    }
}
impl ToVal for i64 {
    fn to_val(&self) -> Val {
        Val::I64(*self)
    }
}
impl ToVal for usize {
    fn to_val(&self) -> Val {
        Val::U64(*self as u64)
    }
}
impl ToVal for str {
    fn to_val(&self) -> Val {
        Val::Null // text columns are opaque to the models
    }
}
impl ToVal for bool {
    fn to_val(&self) -> Val {
        Val::U64(*self as u64)
    }
}
impl ToVal for [u8; 16] {
    fn to_val(&self) -> Val {
        // 16-byte ids are opaque to the models; the first 8 bytes stand for them
        Val::U64(u64::from_le_bytes([self[0], self[1], self[2], self[3], self[4], self[5], self[6], self[7]]))
    }
}
impl ToVal for Val {
    fn to_val(&self) -> Val {
        *self
    }
}
impl<T: ToVal + ?Sized> ToVal for &T {
    fn to_val(&self) -> Val {
        (**self).to_val()
    }
}
impl<T: ToVal> ToVal for Option<T> {
    fn to_val(&self) -> Val {
        match self {
            Some(v) => v.to_val(),
            None => Val::Null,
        }
    }
}

pub trait FromVal: Sized {
    fn from_val(v: Val) -> Result<Self>;
}
impl FromVal for u64 {
    fn from_val(v: Val) -> Result<Self> {
        match v {
            Val::U64(x) => Ok(x),
            Val::I64(x) if x >= 0 => Ok(x as u64),
            _ => Err(Error::Other(1)),
        }
    }
}
impl FromVal for i64 {
    fn from_val(v: Val) -> Result<Self> {
        match v {
            Val::I64(x) => Ok(x),
            Val::U64(x) if x <= i64::MAX as u64 => Ok(x as i64),
            _ => Err(Error::Other(1)),
        }
    }
}
impl FromVal for bool {
    fn from_val(v: Val) -> Result<Self> {
        match v {
            Val::U64(x) => Ok(x != 0),
            Val::I64(x) => Ok(x != 0),
            _ => Err(Error::Other(1)),
        }
    }
}
impl<T: FromVal> FromVal for Option<T> {
    fn from_val(v: Val) -> Result<Self> {
        match v {
            Val::Null => Ok(None),
            v => T::from_val(v).map(Some),
        }
    }
}

/// bound parameters: named (`:name`) or positional
#[derive(Clone, Copy)]
pub struct ParamList {
    /// FNV-1a ids of the parameter names (computed at compile time by `named_params!` / `pid!`),
    /// 0 for positional parameters
    pub names: [u32; MAX_PARAMS],
    pub vals: [Val; MAX_PARAMS],
    pub len: usize,
}
impl ParamList {
    pub fn empty() -> Self {
        Self { names: [0; MAX_PARAMS], vals: [Val::Null; MAX_PARAMS], len: 0 }
    }
    pub fn push(&mut self, name: u32, v: Val) {
        assert!(self.len < MAX_PARAMS, "VENV-CAPACITY: too many SQL parameters");
        self.names[self.len] = name;
        self.vals[self.len] = v;
        self.len += 1;
    }
    /// positional parameter i (0-based)
    pub fn pos(&self, i: usize) -> Val {
        assert!(i < self.len, "VENV-SQL: missing positional parameter");
        self.vals[i]
    }
    /// named parameter, by compile-time id: `params.named(pid!(":start"))`
    pub fn named(&self, id: u32) -> Val {
        let mut i = 0;
        while i < MAX_PARAMS {
            if i >= self.len {
                break;
            }
            if self.names[i] == id {
                return self.vals[i];
            }
            i += 1;
        }
        panic!("VENV-SQL: missing named parameter");
    }
}

/// FNV-1a of a name, evaluated by rustc at compile time (never by CBMC)
pub const fn name_id(s: &str) -> u32 {
    let b = s.as_bytes();
    let mut h: u32 = 0x811c9dc5;
    let mut i = 0;
    while i < b.len() {
        h ^= b[i] as u32;
        h = h.wrapping_mul(0x01000193);
        i += 1;
    }
    if h == 0 {
        1
    } else {
        h
    }
}
#[macro_export]
macro_rules! pid {
    ($name:literal) => {{
        const ID: u32 = $crate::sql::name_id($name);
        ID
    }};
}

/// Statement table: identifies a runtime SQL text among N known texts WITHOUT looping over the
/// text in CBMC: the key is (length, bytes at 4 positions); the positions are chosen at compile
/// time (const fn) so that all known texts have distinct keys (compile error otherwise).
/// A text that is not in the table but shares a key with one would be misclassified: the set of
/// SQL literals of the sliced functions is enumerated by the slicer / E2, which closes that gap.
pub struct SqlTable<const N: usize> {
    pub texts: [&'static str; N],
    pub pos: [usize; 4],
}
const fn key_eq(a: &str, b: &str, pos: &[usize; 4], upto: usize) -> bool {
    let (a, b) = (a.as_bytes(), b.as_bytes());
    if a.len() != b.len() {
        return false;
    }
    let mut k = 0;
    while k < upto {
        let p = pos[k];
        let x = if p < a.len() { a[p] } else { 0 };
        let y = if p < b.len() { b[p] } else { 0 };
        if x != y {
            return false;
        }
        k += 1;
    }
    true
}
impl<const N: usize> SqlTable<N> {
    pub const fn new(texts: [&'static str; N]) -> Self {
        let mut pos = [0usize; 4];
        let mut k = 0;
        while k < 4 {
            // greedy: the position that leaves the fewest colliding pairs
            let mut best_p = 0;
            let mut best_c = usize::MAX;
            let mut p = 0;
            while p < 400 {
                pos[k] = p;
                let mut c = 0;
                let mut i = 0;
                while i < N {
                    let mut j = i + 1;
                    while j < N {
                        if key_eq(texts[i], texts[j], &pos, k + 1) {
                            c += 1;
                        }
                        j += 1;
                    }
                    i += 1;
                }
                if c < best_c {
                    best_c = c;
                    best_p = p;
                }
                p += 1;
            }
            pos[k] = best_p;
            k += 1;
        }
        let mut i = 0;
        while i < N {
            let mut j = i + 1;
            while j < N {
                if key_eq(texts[i], texts[j], &pos, 4) {
                    panic!("VENV-SQL: two statements share a classification key");
                }
                j += 1;
            }
            i += 1;
        }
        Self { texts, pos }
    }
    /// index of `sql` in the table
    pub fn classify(&self, sql: &str) -> usize {
        let b = sql.as_bytes();
        let mut i = 0;
        while i < N {
            let t = self.texts[i].as_bytes();
            if t.len() == b.len() {
                let mut same = true;
                let mut k = 0;
                while k < 4 {
                    let p = self.pos[k];
                    let x = if p < b.len() { b[p] } else { 0 };
                    let y = if p < t.len() { t[p] } else { 0 };
                    if x != y {
                        same = false;
                    }
                    k += 1;
                }
                if same {
                    return i;
                }
            }
            i += 1;
        }
        panic!("VENV-SQL: statement text not known to the model (inconclusive)");
    }
}

pub trait Params {
    fn bind(self) -> ParamList;
}
impl Params for ParamList {
    fn bind(self) -> ParamList {
        self
    }
}
impl Params for () {
    fn bind(self) -> ParamList {
        ParamList::empty()
    }
}
impl<T: ToVal, const N: usize> Params for [T; N] {
    fn bind(self) -> ParamList {
        let mut p = ParamList::empty();
        for v in self.iter() {
            p.push(0, v.to_val());
        }
        p
    }
}
impl<A: ToVal> Params for (A,) {
    fn bind(self) -> ParamList {
        let mut p = ParamList::empty();
        p.push(0, self.0.to_val());
        p
    }
}
impl<A: ToVal, B: ToVal> Params for (A, B) {
    fn bind(self) -> ParamList {
        let mut p = ParamList::empty();
        p.push(0, self.0.to_val());
        p.push(0, self.1.to_val());
        p
    }
}
impl<A: ToVal, B: ToVal, C: ToVal> Params for (A, B, C) {
    fn bind(self) -> ParamList {
        let mut p = ParamList::empty();
        p.push(0, self.0.to_val());
        p.push(0, self.1.to_val());
        p.push(0, self.2.to_val());
        p
    }
}
impl<A: ToVal, B: ToVal, C: ToVal, D: ToVal> Params for (A, B, C, D) {
    fn bind(self) -> ParamList {
        let mut p = ParamList::empty();
        p.push(0, self.0.to_val());
        p.push(0, self.1.to_val());
        p.push(0, self.2.to_val());
        p.push(0, self.3.to_val());
        p
    }
}
#[macro_export]
macro_rules! named_params {
    () => { $crate::sql::ParamList::empty() };
    ($($name:literal : $val:expr),+ $(,)?) => {{
        let mut p = $crate::sql::ParamList::empty();
        $( p.push($crate::pid!($name), $crate::sql::ToVal::to_val(&$val)); )+
        p
    }};
}

#[derive(Clone, Copy)]
pub struct Row {
    pub cols: [Val; MAX_COLS],
}
impl Row {
    pub fn get<T: FromVal>(&self, i: usize) -> Result<T> {
        assert!(i < MAX_COLS, "VENV-SQL: column index");
        T::from_val(self.cols[i])
    }
}
#[derive(Clone, Copy)]
pub struct RowSet {
    pub rows: [Row; MAX_ROWS],
    pub len: usize,
}
impl RowSet {
    pub fn empty() -> Self {
        Self { rows: [Row { cols: [Val::Null; MAX_COLS] }; MAX_ROWS], len: 0 }
    }
    pub fn push(&mut self, cols: &[Val]) {
        assert!(self.len < MAX_ROWS, "VENV-CAPACITY: result set");
        let mut r = Row { cols: [Val::Null; MAX_COLS] };
        let mut i = 0;
        while i < cols.len() {
            r.cols[i] = cols[i];
            i += 1;
        }
        self.rows[self.len] = r;
        self.len += 1;
    }
}
pub struct Rows {
    set: RowSet,
    next: usize,
}
impl Rows {
    pub fn next(&mut self) -> Result<Option<&Row>> {
        if self.next < self.set.len {
            let r = &self.set.rows[self.next];
            self.next += 1;
            Ok(Some(r))
        } else {
            Ok(None)
        }
    }
}

/// table semantics, implemented by the harness crate
pub trait Backend {
    /// INSERT / UPDATE / DELETE: number of affected rows or a constraint error
    fn execute(&mut self, sql: &'static str, params: &ParamList) -> Result<usize>;
    /// SELECT
    fn query(&mut self, sql: &'static str, params: &ParamList) -> Result<RowSet>;
}

pub struct Conn<B: Backend> {
    pub db: RefCell<B>,
}
pub struct Statement<'c, B: Backend> {
    conn: &'c Conn<B>,
    sql: &'static str,
}
impl<B: Backend> Conn<B> {
    pub fn new(db: B) -> Self {
        Self { db: RefCell::new(db) }
    }
    pub fn prepare_cached(&self, sql: &'static str) -> Result<Statement<'_, B>> {
        Ok(Statement { conn: self, sql })
    }
    pub fn prepare(&self, sql: &'static str) -> Result<Statement<'_, B>> {
        Ok(Statement { conn: self, sql })
    }
    pub fn execute<P: Params>(&self, sql: &'static str, params: P) -> Result<usize> {
        self.db.borrow_mut().execute(sql, &params.bind())
    }
    pub fn query_row<T, P: Params, F: FnOnce(&Row) -> Result<T>>(&self, sql: &'static str, params: P, f: F) -> Result<T> {
        let set = self.db.borrow_mut().query(sql, &params.bind())?;
        if set.len == 0 {
            return Err(Error::QueryReturnedNoRows);
        }
        f(&set.rows[0])
    }
}
impl<'c, B: Backend> Statement<'c, B> {
    pub fn execute<P: Params>(&mut self, params: P) -> Result<usize> {
        self.conn.db.borrow_mut().execute(self.sql, &params.bind())
    }
    pub fn query_row<T, P: Params, F: FnOnce(&Row) -> Result<T>>(&mut self, params: P, f: F) -> Result<T> {
        let set = self.conn.db.borrow_mut().query(self.sql, &params.bind())?;
        if set.len == 0 {
            return Err(Error::QueryReturnedNoRows);
        }
        f(&set.rows[0])
    }
    pub fn query<P: Params>(&mut self, params: P) -> Result<Rows> {
        let set = self.conn.db.borrow_mut().query(self.sql, &params.bind())?;
        Ok(Rows { set, next: 0 })
    }
    /// rusqlite's `query_map`: an iterator of `f(row)` results
    pub fn query_map<T, P: Params, F: FnMut(&Row) -> Result<T>>(&mut self, params: P, f: F) -> Result<MappedRows<F>> {
        let set = self.conn.db.borrow_mut().query(self.sql, &params.bind())?;
        Ok(MappedRows { set, next: 0, f })
    }
    pub fn exists<P: Params>(&mut self, params: P) -> Result<bool> {
        let set = self.conn.db.borrow_mut().query(self.sql, &params.bind())?;
        Ok(set.len > 0)
    }
}

pub struct MappedRows<F> {
    set: RowSet,
    next: usize,
    f: F,
}
impl<T, F: FnMut(&Row) -> Result<T>> Iterator for MappedRows<F> {
    type Item = Result<T>;
    fn next(&mut self) -> Option<Result<T>> {
        if self.next < self.set.len {
            let r = (self.f)(&self.set.rows[self.next]);
            self.next += 1;
            Some(r)
        } else {
            None
        }
    }
}

/// rusqlite's positional `params![a, b, ..]`
#[macro_export]
macro_rules! params {
    () => { $crate::sql::ParamList::empty() };
    ($($val:expr),+ $(,)?) => {{
        let mut p = $crate::sql::ParamList::empty();
        $( p.push(0, $crate::sql::ToVal::to_val(&$val)); )+
        p
    }};
}

pub trait OptionalExtension<T> {
    fn optional(self) -> Result<Option<T>>;
}
impl<T> OptionalExtension<T> for Result<T> {
    fn optional(self) -> Result<Option<T>> {
        match self {
            Ok(v) => Ok(Some(v)),
            Err(Error::QueryReturnedNoRows) => Ok(None),
            Err(e) => Err(e),
        }
    }
}

