//! eyre stand-in: an opaque report; `bail!` returns it; any error converts into it.
pub struct Report;
pub type Result<T, E = Report> = core::result::Result<T, E>;
/// every environment error type converts (Report itself is not an `EnvError`, so no overlap with
/// the reflexive `From`)
pub trait EnvError {}
impl EnvError for crate::chan::SendError {}
impl EnvError for crate::sqlite::Error {}
impl<E: EnvError> From<E> for Report {
    fn from(_e: E) -> Self {
        Report
    }
}
#[macro_export]
macro_rules! bail {
    ($($t:tt)*) => {
        return Err($crate::eyre::Report)
    };
}
pub use crate::bail;
