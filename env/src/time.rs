//! std::time::Instant stand-in: time is a symbolic variable.  `elapsed()` returns an arbitrary
//! duration (every call), constrained only to the range the harness configures.
use core::time::Duration;

#[derive(Clone, Copy, Debug)]
pub struct Instant;

/// upper bound (ms) of what `elapsed()` may return; harnesses may lower it
pub static mut MAX_ELAPSED_MS: u64 = u64::MAX >> 20;

impl Instant {
    pub fn now() -> Self {
        Instant
    }
    #[cfg(kani)]
    pub fn elapsed(&self) -> Duration {
        let ms: u64 = kani::any();
        let lim = unsafe { MAX_ELAPSED_MS };
        kani::assume(ms <= lim);
        Duration::from_millis(ms)
    }
    #[cfg(not(kani))]
    pub fn elapsed(&self) -> Duration {
        Duration::from_millis(0)
    }
}
